#!/usr/bin/env python3
"""Prototype of HARD(iv): w with low product word == 2^64-1 after a single multiplication.
w = -(T_hi(q))^-1 mod 2^64 where T_hi is the first tuple element of POWER_OF_FIVE_128[q].
Measured on the pinned tree: 154 exponents have a normalised solution, 138 of them
outside the safe range [-27, 55] (Lemire must decline there); 16 solutions are 19-digit
significands, of which Lemire declines 15 - the only untruncated inputs found so far that
enter the big-integer path in default builds. All parse correctly end to end."""
import re
src=open('/repo/src/table_lemire.rs').read()
ent=re.findall(r"\((0x[0-9a-f]+), (0x[0-9a-f]+)\),\s*// 5\^(-?\d+)", src)
M=1<<64
for hi,lo,q in ent:
    hi=int(hi,16); q=int(q)
    if hi%2==0: continue
    w=(-pow(hi,-1,M))%M
    if w>>63==0: continue
    assert (w*hi)%M==M-1
    first_hi=(w*hi)>>64
    print("f64", q, w, "lomax", "trig2" if (first_hi & 0x1ff)==0x1ff else "single", "safe" if -27<=q<=55 else "unsafe")
