import sys, random
from fractions import Fraction
random.seed(1)
out=[]
for q in range(-342, 309):
    p10 = Fraction(10)**q
    for trial in range(400):
        w0 = random.choice([10**18, 10**18+random.randrange(10**17), random.randrange(10**18, 10**19), 9223372036854775808+random.randrange(10**17)])
        x = w0*p10
        # binade
        n, d = x.numerator, x.denominator
        e = n.bit_length()-d.bit_length()
        if Fraction(2)**e > x: e-=1
        if e < -1022 or e > 1023: continue
        step = Fraction(2)**(e-52)
        m = x // step  # integer significand (53-bit)
        for j in range(1,3):
            H = (2*(m+j)+1)*step/2
            t = H/p10
            w = t.numerator//t.denominator
            frac = float(t-w)
            if w>=10**19 or w<10**18: continue
            if frac<0.75: continue
            out.append((w,q,frac))
for w,q,frac in out: print(w,q,"%.4f"%frac)
