#!/usr/bin/env python3
"""Prototype of Appendix A: number-theoretic hard cases (w, q) for the moderate stage.
Exact integer arithmetic only. Output lines: fmt q w kind dist_bits
dist_bits = -log2(relative distance to the nearest midpoint), 'inf' for exact ties."""
import sys, math
from fractions import Fraction

def gauss_reduce(b1, b2):
    # Lagrange-Gauss reduction of a 2D integer lattice basis
    def n2(v): return v[0]*v[0]+v[1]*v[1]
    if n2(b1) > n2(b2): b1, b2 = b2, b1
    while True:
        # mu = round(<b1,b2>/<b1,b1>)
        num = b1[0]*b2[0]+b1[1]*b2[1]; den = n2(b1)
        mu = (2*num + den)//(2*den)
        b2 = (b2[0]-mu*b1[0], b2[1]-mu*b1[1])
        if n2(b2) >= n2(b1): return b1, b2
        b1, b2 = b2, b1

def cvp_candidates(A, M, target, wlo, whi, ybound_bits, scale):
    """lattice {(w, (w*A mod M))}: find w in [wlo,whi) with (w*A mod M) close to target.
    x coordinate is scaled by `scale` to balance the search box."""
    b1 = (scale, A % M); b2 = (0, M)
    r1, r2 = gauss_reduce(b1, b2)
    wc = (wlo+whi)//2
    t = (wc*scale, (wc*A) % M)   # a lattice point near the box centre
    # we want lattice point p with p.y == target (mod nothing; y in [0,M)) : search v = p - t, v in lattice, v.y ~ target - t.y
    dy = target - t[1]
    # solve a*r1 + b*r2 ~ (0, dy) via Babai
    det = r1[0]*r2[1]-r1[1]*r2[0]
    a0 = Fraction(0*r2[1] - dy*r2[0], det); b0 = Fraction(r1[0]*dy - r1[1]*0, det)
    out = []
    for da in range(-3,4):
        for db in range(-3,4):
            a = round(a0)+da; b = round(b0)+db
            vx = a*r1[0]+b*r2[0]; vy = a*r1[1]+b*r2[1]
            if vx % scale: continue
            w = wc + vx//scale
            if not (wlo <= w < whi): continue
            y = (w*A) % M
            out.append((abs(y-target), w))
    out.sort()
    return out

def midpoint_cases(q, p, wbits=64, want=6):
    """closest approaches / ties for decimal exponent q, precision p (53 or 24), w with exactly `wbits` bits"""
    res = []
    wlo, whi = 1 << (wbits-1), 1 << wbits
    if q >= 0:
        P = 5**q
        for L in (wbits + P.bit_length() - 1, wbits + P.bit_length()):
            k = L - p
            if k <= 0: continue
            M = 1 << k; target = 1 << (k-1)
            # w*P must have exactly L bits
            lo = max(wlo, -((-(1 << (L-1))) // P)); hi = min(whi, -((-(1 << L)) // P))
            if lo >= hi: continue
            if k <= wbits:
                inv = pow(P, -1, M)
                for d in (0, 1, -1, 2, -2):
                    r = (inv * (target + d)) % M
                    # representatives in [lo,hi)
                    w = lo + ((r - lo) % M)
                    if w < hi: res.append((w, d))
            else:
                scale = 1 << max(0, k - wbits)
                for dist, w in cvp_candidates(P, M, target, lo, hi, 0, scale)[:want]:
                    res.append((w, None))
    else:
        P = 5**(-q)
        # value = w * 2^q / P. quotient w*2^s / P should have p+1 bits and be ~odd: w*2^s ~ (2m+1) * P, i.e. w*2^s mod 2P ~ P
        for s_adj in (0, 1):
            # choose s so that floor(w*2^s/P) has p+1 bits for w ~ wlo..whi
            s = (p + 1) + P.bit_length() - wbits - 1 + s_adj
            M = 2*P
            if s >= 0:
                A = pow(2, s, M)
                lo, hi = wlo, whi
                # lattice search always (M not a power of two)
                scale = max(1, M >> wbits)
                for dist, w in cvp_candidates(A, M, P, lo, hi, 0, scale)[:want]:
                    res.append((w, None))
            else:
                # w / 2^-s ~ (2m+1) P  => w ~ (2m+1) * P * 2^-s : exact ties if representable
                step = P << (-s)
                m0 = (wlo // step) | 1
                for j in range(0, 6, 2):
                    w = (m0 + j) * step
                    if wlo <= w < whi: res.append((w, 0))
    return res

def rel_dist_bits(w, q, p):
    v = Fraction(w) * Fraction(10)**q
    n, d = v.numerator, v.denominator
    e = n.bit_length() - d.bit_length()
    if Fraction(2)**e > v: e -= 1
    ulp = Fraction(2)**(e - (p-1))
    x = v / ulp                      # in [2^(p-1), 2^p)
    frac = x - (x.numerator // x.denominator)
    dist = abs(frac - Fraction(1,2)) * ulp / v
    if dist == 0: return 'inf'
    return '%.1f' % (-math.log2(dist))

if __name__ == '__main__':
    fmt = sys.argv[1] if len(sys.argv) > 1 else 'f64'
    p, qlo, qhi = (53, -342, 308) if fmt == 'f64' else (24, -65, 38)
    for q in range(qlo, qhi+1):
        seen = set()
        for wbits in (64, 63, 60):
            for w, d in midpoint_cases(q, p, wbits):
                if w in seen or w >= 1<<64: continue
                seen.add(w)
                print(fmt, q, w, 'tie' if d == 0 else 'near', rel_dist_bits(w, q, p))
