//! C16, schedules: every call-level interleaving of concurrent callers (loom, exhaustive DPOR search)
//! must reproduce the sequential results. The crate has no synchronisation operations, so the only
//! scheduling points are the acquisitions of the mutex the harness puts between calls; finer interleavings
//! are covered by the independence argument + race detection on free-running threads (DESIGN.md 4/C16).
use loom::sync::{Arc, Mutex};
use std::collections::HashSet;
use std::sync::atomic::{AtomicUsize, Ordering};

#[derive(Clone)]
struct Inp(&'static str, &'static str, i32);

fn bits(i: &Inp) -> (u32, u64) {
    let a: f32 = minimal_lexical::parse_float(i.0.as_bytes().iter(), i.1.as_bytes().iter(), i.2);
    let b: f64 = minimal_lexical::parse_float(i.0.as_bytes().iter(), i.1.as_bytes().iter(), i.2);
    (a.to_bits(), b.to_bits())
}

static EXECS: AtomicUsize = AtomicUsize::new(0);

fn explore(name: &str, plan: Vec<Vec<usize>>, inputs: &'static [Inp]) -> (usize, usize, usize) {
    let seq: Vec<(u32, u64)> = inputs.iter().map(bits).collect();
    let seq = std::sync::Arc::new(seq);
    let orders: std::sync::Arc<std::sync::Mutex<HashSet<Vec<(usize, usize)>>>> = Default::default();
    let bad = std::sync::Arc::new(AtomicUsize::new(0));
    EXECS.store(0, Ordering::SeqCst);
    let (seq2, orders2, bad2, plan2) = (seq.clone(), orders.clone(), bad.clone(), plan.clone());
    let mut b = loom::model::Builder::new();
    b.preemption_bound = std::env::var("LOOM_MAX_PREEMPTIONS").ok().and_then(|s| s.parse().ok());
    b.check(move || {
        EXECS.fetch_add(1, Ordering::SeqCst);
        let log: Arc<Mutex<Vec<(usize, usize, (u32, u64))>>> = Arc::new(Mutex::new(Vec::new()));
        let mut hs = Vec::new();
        for (tid, calls) in plan2.iter().enumerate() {
            let log = log.clone();
            let calls = calls.clone();
            hs.push(loom::thread::spawn(move || {
                for k in calls {
                    let r = bits(&inputs[k]);
                    // the mutex acquisition is the scheduling point between calls
                    log.lock().unwrap().push((tid, k, r));
                }
            }));
        }
        for h in hs {
            h.join().unwrap();
        }
        let log = log.lock().unwrap();
        let mut order = Vec::new();
        for &(tid, k, r) in log.iter() {
            order.push((tid, k));
            if r != seq2[k] {
                bad2.fetch_add(1, Ordering::SeqCst);
            }
        }
        orders2.lock().unwrap().insert(order);
    });
    let e = EXECS.load(Ordering::SeqCst);
    let o = orders.lock().unwrap().len();
    let b = bad.load(Ordering::SeqCst);
    println!("LOOM harness={} executions={} distinct_publication_orders={} mismatches={}", name, e, o, b);
    (e, o, b)
}

static INPUTS: [Inp; 6] = [
    Inp("9007199254740993", "", 0),                               // exact tie: slow / tie window
    Inp("1", "00000000000000000000001", 0),                        // truncated, moderate
    Inp("12345000000000000218930239", "", 200),                   // big-integer path with long multiplication
    Inp("2", "4703282292062327208051355972539062", -324),          // subnormal threshold, negative digit comparison
    Inp("15", "", -1),                                             // fast path
    Inp("47299799766906385947263424561840503652352", "", 140),    // multi-limb zero gaps
];

fn main() {
    let mut total = (0, 0, 0);
    for (name, plan) in [
        ("2x2", vec![vec![0, 2], vec![3, 1]]),
        ("2x2-same-inputs", vec![vec![2, 2], vec![2, 2]]),
        ("3x1", vec![vec![2], vec![3], vec![5]]),
        ("2x3", vec![vec![0, 2, 4], vec![5, 3, 1]]),
    ] {
        let r = explore(name, plan, &INPUTS);
        total = (total.0 + r.0, total.1 + r.1, total.2 + r.2);
    }
    println!("RESULT {{\"cases\":{},\"calls\":{},\"nontrivial\":{},\"nviol\":{},\"violations\":[],\"machinery\":[],\"samples\":[\"2 threads x 2 calls: (tie, long-mul) || (subnormal, truncated)\"],\"executions\":{},\"distinct_orders\":{}}}", total.0, total.0 * 4, total.1, total.2, total.0, total.1);
    std::process::exit(if total.2 == 0 { 0 } else { 1 });
}
