//! Reference models and input families for the minimal-lexical checks.
//! No dependency on the crate under verification.
pub mod exact;
pub mod families;
pub mod nat;
