//! Exact rounding oracle.
//!
//! `check` decides whether a given bit pattern is *the* correctly rounded
//! (nearest, ties-to-even) binary float of a decimal value, by comparing the
//! decimal value with the two end points of that float's rounding interval.
//! Only multiplication, shifting and comparison of naturals are used.

use crate::nat::{pow5, pow5_ref, Nat};
use std::cmp::Ordering;

/// An IEEE-754 binary interchange format (non-negative values only).
#[derive(Clone, Copy, Debug, PartialEq, Eq)]
pub struct Fmt {
    pub name: &'static str,
    /// Precision in bits including the hidden bit (53 / 24).
    pub p: u32,
    /// Exponent field width (11 / 8).
    pub ebits: u32,
}

pub const F64: Fmt = Fmt { name: "f64", p: 53, ebits: 11 };
pub const F32: Fmt = Fmt { name: "f32", p: 24, ebits: 8 };

impl Fmt {
    pub fn mant_bits(&self) -> u32 {
        self.p - 1
    }
    pub fn bias(&self) -> i32 {
        (1 << (self.ebits - 1)) - 1
    }
    /// Binary exponent of the unit in the last place of subnormals (-1074 / -149).
    pub fn emin_ulp(&self) -> i32 {
        1 - self.bias() - (self.p as i32 - 1)
    }
    pub fn inf_bits(&self) -> u64 {
        ((1u64 << self.ebits) - 1) << self.mant_bits()
    }
    pub fn max_finite_bits(&self) -> u64 {
        self.inf_bits() - 1
    }
    pub fn min_normal_bits(&self) -> u64 {
        1u64 << self.mant_bits()
    }
    /// `(m, e)` with value `m * 2^e` for a finite non-negative pattern.
    pub fn decode(&self, bits: u64) -> (u64, i32) {
        debug_assert!(bits < self.inf_bits());
        let be = (bits >> self.mant_bits()) as i32;
        let f = bits & ((1u64 << self.mant_bits()) - 1);
        if be == 0 {
            (f, self.emin_ulp())
        } else {
            (f | (1u64 << self.mant_bits()), be - 1 + self.emin_ulp())
        }
    }
    /// The midpoint between the finite pattern `bits` and its successor
    /// (for the largest finite value: the overflow threshold), as `K * 2^j`.
    pub fn upper_boundary(&self, bits: u64) -> (u64, i32) {
        let (m, e) = self.decode(bits);
        (2 * m + 1, e - 1)
    }
    /// Number of binades including the subnormal one.
    pub fn binades(&self) -> u64 {
        (1u64 << self.ebits) - 1
    }
}

/// A decimal value `D * 10^exp10 (+ something in (0, 10^exp10) if sticky)`.
#[derive(Clone, Debug)]
pub struct DecN {
    pub d: Nat,
    /// number of decimal digits of `d` (0 for zero)
    pub nd: usize,
    pub exp10: i64,
    pub sticky: bool,
}

/// Digits kept exactly by the oracle; every rounding boundary of f32 and f64
/// has fewer significant digits (at most 768), see DESIGN.md 3.3.
pub const ORACLE_DIGITS: usize = 800;

impl DecN {
    /// Build from the raw arguments of `parse_float`.
    pub fn from_parts(int: &[u8], frac: &[u8], exp: i32) -> DecN {
        let total = int.len() + frac.len();
        let at = |i: usize| if i < int.len() { int[i] } else { frac[i - int.len()] };
        let mut lo = 0;
        while lo < total && at(lo) == b'0' {
            lo += 1;
        }
        let mut hi = total;
        while hi > lo && at(hi - 1) == b'0' {
            hi -= 1;
        }
        let mut exp10 = exp as i64 - frac.len() as i64 + (total - hi) as i64;
        let mut sticky = false;
        if hi - lo > ORACLE_DIGITS {
            sticky = true; // the last kept-out digit at hi-1 is non-zero
            exp10 += (hi - lo - ORACLE_DIGITS) as i64;
            hi = lo + ORACLE_DIGITS;
        }
        let mut buf = Vec::with_capacity(hi - lo);
        for i in lo..hi {
            buf.push(at(i));
        }
        DecN { d: Nat::from_dec(&buf), nd: hi - lo, exp10, sticky }
    }
    pub fn from_u64(w: u64, exp10: i64) -> DecN {
        let mut t = w;
        let mut c = 0;
        while t != 0 {
            t /= 10;
            c += 1;
        }
        DecN { d: Nat::from_u64(w), nd: c, exp10, sticky: false }
    }
    pub fn from_digits(digits: &[u8], exp10: i64) -> DecN {
        DecN::from_parts(digits, b"", 0).shifted(exp10)
    }
    fn shifted(mut self, e: i64) -> DecN {
        self.exp10 += e;
        self
    }
    pub fn is_zero(&self) -> bool {
        self.d.is_zero() && !self.sticky
    }
    /// floor(log10(value)) for non-zero values.
    pub fn sci(&self) -> i64 {
        self.exp10 + self.nd as i64 - 1
    }
    /// Compare two decimal values exactly.
    pub fn cmp_dec(&self, o: &DecN) -> Ordering {
        match (self.d.is_zero(), o.d.is_zero()) {
            (true, true) => return Ordering::Equal,
            (true, false) => return Ordering::Less,
            (false, true) => return Ordering::Greater,
            _ => {},
        }
        if self.sci() != o.sci() {
            return self.sci().cmp(&o.sci());
        }
        let m = self.exp10.min(o.exp10);
        let scale = |x: &DecN| -> Nat {
            let k = (x.exp10 - m) as u32;
            x.d.mul(&pow5(k)).shl(k as u64)
        };
        let ord = scale(self).cmp(&scale(o));
        if ord != Ordering::Equal {
            return ord;
        }
        // equal kept prefixes: a sticky tail is strictly larger than none; two sticky tails are not comparable here
        match (self.sticky, o.sticky) {
            (false, false) => Ordering::Equal,
            (true, false) => Ordering::Greater,
            (false, true) => Ordering::Less,
            (true, true) => Ordering::Equal,
        }
    }
    /// Compare the decimal value with `k * 2^j`.
    pub fn cmp_bin(&self, k: u64, j: i32) -> Ordering {
        if k == 0 {
            return if self.is_zero() { Ordering::Equal } else { Ordering::Greater };
        }
        if self.d.is_zero() {
            // A sticky tail under a zero prefix cannot occur (leading zeros are stripped first).
            return Ordering::Less;
        }
        // Magnitude short-cuts: every boundary of f32/f64 lies in (10^-330, 10^310).
        let sci = self.sci();
        if sci > 400 {
            return Ordering::Greater;
        }
        if sci < -400 {
            return Ordering::Less;
        }
        let kn = Nat::from_u64(k);
        let e = self.exp10;
        let j = j as i64;
        let base = e.min(j);
        let (sa, sb) = ((e - base) as u64, (j - base) as u64);
        let ord = if e >= 0 {
            let a = self.d.mul(pow5_ref(e as u32));
            a.cmp_shifted(sa, &kn, sb)
        } else {
            let b = if (-e) as usize <= 2600 { kn.mul(pow5_ref((-e) as u32)) } else { kn.mul(&pow5((-e) as u32)) };
            self.d.cmp_shifted(sa, &b, sb)
        };
        if self.sticky && ord == Ordering::Equal {
            Ordering::Greater
        } else {
            ord
        }
    }
}

/// Is `bits` the correctly rounded value of `v` in format `f`?
pub fn check(v: &DecN, f: Fmt, bits: u64) -> bool {
    if bits > f.inf_bits() {
        return false; // NaN or sign bit set
    }
    let even = bits & 1 == 0;
    if bits > 0 {
        let (k, j) = f.upper_boundary(bits - 1);
        match v.cmp_bin(k, j) {
            Ordering::Greater => {},
            Ordering::Equal if even => {},
            _ => return false,
        }
    }
    if bits < f.inf_bits() {
        let (k, j) = f.upper_boundary(bits);
        match v.cmp_bin(k, j) {
            Ordering::Less => {},
            Ordering::Equal if even => {},
            _ => return false,
        }
    }
    true
}

/// The correctly rounded bit pattern, by bisection over the (monotone) encoding.
pub fn expected(v: &DecN, f: Fmt) -> u64 {
    // smallest c in [0, inf) with v < U(c) or (v == U(c) and c even); else inf
    let fits = |c: u64| -> bool {
        let (k, j) = f.upper_boundary(c);
        match v.cmp_bin(k, j) {
            Ordering::Less => true,
            Ordering::Equal => c & 1 == 0,
            Ordering::Greater => false,
        }
    };
    let (mut lo, mut hi) = (0u64, f.inf_bits()); // answer in [lo, hi]
    while lo < hi {
        let mid = lo + (hi - lo) / 2;
        if fits(mid) {
            hi = mid;
        } else {
            lo = mid + 1;
        }
    }
    lo
}

/// Exact decimal expansion of `k * 2^j`: digits without leading or trailing
/// zeros and the power of ten of the last digit.
pub fn expand(k: u64, j: i32) -> (Vec<u8>, i64) {
    if k == 0 {
        return (Vec::new(), 0);
    }
    let (n, mut e) = if j >= 0 {
        (Nat::from_u64(k).shl(j as u64), 0i64)
    } else {
        (Nat::from_u64(k).mul(&pow5((-j) as u32)), j as i64)
    };
    let mut d = n.to_dec();
    while d.last() == Some(&b'0') {
        d.pop();
        e += 1;
    }
    (d, e)
}

#[cfg(test)]
mod tests {
    use super::*;
    fn chk64(s: &str) {
        let (mant, exp) = match s.find('e') {
            Some(i) => (&s[..i], s[i + 1..].parse::<i32>().unwrap()),
            None => (s, 0),
        };
        let (int, frac) = match mant.find('.') {
            Some(i) => (&mant[..i], &mant[i + 1..]),
            None => (mant, ""),
        };
        let v = DecN::from_parts(int.as_bytes(), frac.as_bytes(), exp);
        let c: f64 = s.parse().unwrap();
        assert!(check(&v, F64, c.to_bits()), "{}", s);
        assert_eq!(expected(&v, F64), c.to_bits(), "{}", s);
        if c.to_bits() > 0 {
            assert!(!check(&v, F64, c.to_bits() - 1), "{}", s);
        }
        assert!(!check(&v, F64, c.to_bits() + 1), "{}", s);
        let c: f32 = s.parse().unwrap();
        assert!(check(&v, F32, c.to_bits() as u64), "{}", s);
        assert_eq!(expected(&v, F32), c.to_bits() as u64, "{}", s);
    }
    #[test]
    fn against_core() {
        for s in [
            "0", "1", "1.5", "9007199254740993", "9007199254740992.5", "1e23", "8.98846567431158e307",
            "1.7976931348623157e308", "1.7976931348623158e308", "179769313486231580793728971405303415079934132710037826936173778980444968292764750946649017977587207096330286416692887910946555547851940402630657488671505820681908902000708383676273854845817711531764475730270069855571366959622842914819860834936475292719074168444365510704342711559699508093042880177904174497791.9999",
            "179769313486231580793728971405303415079934132710037826936173778980444968292764750946649017977587207096330286416692887910946555547851940402630657488671505820681908902000708383676273854845817711531764475730270069855571366959622842914819860834936475292719074168444365510704342711559699508093042880177904174497792",
            "4.9e-324", "2.4703282292062327e-324", "2.4703282292062328e-324", "2.2250738585072014e-308", "2.2250738585072011e-308",
            "1e-400", "1e400", "123456789012345678901234567890e-10", "0.000001", "16777217", "16777217.0000000001", "3.4028235e38", "3.4028236e38",
            "7.0064923216240854e-46", "7.006492321624085e-46", "1.1754942e-38", "100000000000000010699e-326",
        ] {
            chk64(s);
        }
    }
    #[test]
    fn decimal_order() {
        let a = DecN::from_parts(b"1", b"5", 0);
        let b = DecN::from_parts(b"15", b"", -1);
        let c = DecN::from_parts(b"", b"00150000000000000000000000000001", 3);
        assert_eq!(a.cmp_dec(&b), Ordering::Equal);
        assert_eq!(a.cmp_dec(&c), Ordering::Less);
        assert_eq!(c.cmp_dec(&a), Ordering::Greater);
        assert_eq!(DecN::from_parts(b"", b"", 7).cmp_dec(&a), Ordering::Less);
        // sticky: more than ORACLE_DIGITS digits
        let mut long = vec![b'1'; 900];
        let l = DecN::from_parts(&long, b"", 0);
        assert!(l.sticky && l.nd == ORACLE_DIGITS);
        long.truncate(800);
        long.extend(std::iter::repeat(b'0').take(100));
        let m = DecN::from_parts(&long, b"", 0);
        assert_eq!(l.cmp_dec(&m), Ordering::Greater);
        // interval ends
        assert!(check(&DecN::from_parts(b"9007199254740993", b"", 0), F64, 9007199254740992f64.to_bits()));
        assert!(check(&DecN::from_parts(b"9007199254740993", b"0000000000000000000000000000000000001", 0), F64, 9007199254740994f64.to_bits()));
        assert!(!check(&DecN::from_parts(b"9007199254740993", b"", 0), F64, 9007199254740994f64.to_bits()));
    }
    #[test]
    fn expansions() {
        assert_eq!(expand(1, -1), (b"5".to_vec(), -1));
        assert_eq!(expand(3, 2), (b"12".to_vec(), 0));
        assert_eq!(expand(5, 1), (b"1".to_vec(), 1));
        let (d, e) = expand(1, -1075);
        assert_eq!(e, -1075);
        assert_eq!(d.len(), 752);
        // max number of significant digits of a boundary (midpoint just below the smallest normal)
        let (d, _) = expand((1u64 << 53) - 1, -1075);
        assert!(d.len() <= 768, "{}", d.len());
    }
}
