//! Deterministic input families (the alphabets of DESIGN.md 3.4).
//!
//! A family is a list of independent jobs; each job streams `Case`s into a
//! callback. Nothing here is random: `seed` only selects which *additional*
//! complete slice is enumerated on top of the fixed family.

use crate::exact::{expand, Fmt, F32, F64};
use crate::nat::Nat;

pub const M32: u8 = 1;
pub const M64: u8 = 2;
pub const MBOTH: u8 = 3;

/// One input of `parse_float`.
pub struct Case<'a> {
    pub int: &'a [u8],
    pub frac: &'a [u8],
    pub exp: i32,
    /// family / variant label
    pub fam: &'static str,
    /// which formats this case is meant for (bit mask M32|M64)
    pub fmts: u8,
    /// expected bits known by construction (only when `fmts` names one format)
    pub expect: Option<u64>,
}

pub type Emit<'e> = dyn FnMut(&Case) + 'e;
pub type Job = Box<dyn Fn(&mut Emit) + Send + Sync>;

pub fn splitmix(x: &mut u64) -> u64 {
    *x = x.wrapping_add(0x9E3779B97F4A7C15);
    let mut z = *x;
    z = (z ^ (z >> 30)).wrapping_mul(0xBF58476D1CE4E5B9);
    z = (z ^ (z >> 27)).wrapping_mul(0x94D049BB133111EB);
    z ^ (z >> 31)
}

fn clamp_i32(e: i64) -> Option<i32> {
    if e >= i32::MIN as i64 && e <= i32::MAX as i64 {
        Some(e as i32)
    } else {
        None
    }
}

/// Emit the value `digits * 10^exp10` in the requested placements.
/// `digits` has no leading zero; placements whose fraction would end in '0' are skipped
/// unless `allow_trailing` is set.
pub const PL_INT: u8 = 1; // all digits in the integer part
pub const PL_SCI: u8 = 2; // d.ddd
pub const PL_FRAC: u8 = 4; // .ddd
pub const PL_FRACZ: u8 = 8; // .000ddd (3 and 20 leading zeros)
pub const PL_MID: u8 = 16; // split in the middle
pub const PL_POS: u8 = 32; // positional: no exponent at all (what `{}` prints): ddd000 / dd.ddd / .000ddd
pub const PL_ALL: u8 = 31;

pub fn emit_placements(
    emit: &mut Emit,
    digits: &[u8],
    exp10: i64,
    placements: u8,
    fam: &'static str,
    fmts: u8,
    expect: Option<u64>,
) {
    let n = digits.len();
    if n == 0 {
        if let Some(e) = clamp_i32(exp10) {
            emit(&Case { int: b"", frac: b"", exp: e, fam, fmts, expect });
        }
        return;
    }
    let ends0 = digits[n - 1] == b'0';
    if placements & PL_INT != 0 {
        if let Some(e) = clamp_i32(exp10) {
            emit(&Case { int: digits, frac: b"", exp: e, fam, fmts, expect });
        }
    }
    if placements & PL_SCI != 0 && n > 1 && !ends0 {
        if let Some(e) = clamp_i32(exp10 + n as i64 - 1) {
            emit(&Case { int: &digits[..1], frac: &digits[1..], exp: e, fam, fmts, expect });
        }
    }
    if placements & PL_FRAC != 0 && !ends0 {
        if let Some(e) = clamp_i32(exp10 + n as i64) {
            emit(&Case { int: b"", frac: digits, exp: e, fam, fmts, expect });
        }
    }
    if placements & PL_FRACZ != 0 && !ends0 {
        for z in [3usize, 20] {
            let mut f = vec![b'0'; z];
            f.extend_from_slice(digits);
            if let Some(e) = clamp_i32(exp10 + n as i64 + z as i64) {
                emit(&Case { int: b"", frac: &f, exp: e, fam, fmts, expect });
            }
        }
    }
    if placements & PL_POS != 0 && !ends0 {
        if exp10 >= 0 {
            if exp10 <= 400 {
                let mut v = digits.to_vec();
                v.resize(n + exp10 as usize, b'0');
                emit(&Case { int: &v, frac: b"", exp: 0, fam, fmts, expect });
            }
        } else if (-exp10) as usize >= n {
            let z = (-exp10) as usize - n;
            if z <= 1200 {
                let mut f = vec![b'0'; z];
                f.extend_from_slice(digits);
                emit(&Case { int: b"", frac: &f, exp: 0, fam, fmts, expect });
            }
        } else {
            let p = n - (-exp10) as usize;
            emit(&Case { int: &digits[..p], frac: &digits[p..], exp: 0, fam, fmts, expect });
        }
    }
    if placements & PL_MID != 0 && n > 2 && !ends0 {
        let p = n / 2;
        if let Some(e) = clamp_i32(exp10 + (n - p) as i64) {
            emit(&Case { int: &digits[..p], frac: &digits[p..], exp: e, fam, fmts, expect });
        }
    }
}

fn dec_u128(mut w: u128) -> Vec<u8> {
    if w == 0 {
        return Vec::new();
    }
    let mut v = Vec::new();
    while w != 0 {
        v.push(b'0' + (w % 10) as u8);
        w /= 10;
    }
    v.reverse();
    v
}

// ---------------------------------------------------------------------------
// SHORT(n)
// ---------------------------------------------------------------------------

/// Every digit string with at most `n` significant digits, every split into
/// integer|fraction, for every scientific exponent in `sci_lo..=sci_hi`.
/// One job per scientific exponent.
pub fn short(n: u32, sci_lo: i32, sci_hi: i32, fam: &'static str) -> Vec<Job> {
    let mut jobs: Vec<Job> = Vec::new();
    for sci in sci_lo..=sci_hi {
        jobs.push(Box::new(move |emit: &mut Emit| {
            let hi = 10u64.pow(n);
            let mut buf = Vec::new();
            for d in 1..hi {
                let digits = dec_u128(d as u128);
                let len = digits.len() as i32;
                // value = d * 10^(sci - (len-1))
                let q = sci - (len - 1);
                for p in 0..=digits.len() {
                    let frac = &digits[p..];
                    if !frac.is_empty() && frac[frac.len() - 1] == b'0' {
                        continue;
                    }
                    let exp = q + frac.len() as i32;
                    emit(&Case { int: &digits[..p], frac, exp, fam, fmts: MBOTH, expect: None });
                    if p == 0 {
                        // fraction-only with two leading zeros
                        buf.clear();
                        buf.extend_from_slice(b"00");
                        buf.extend_from_slice(frac);
                        emit(&Case { int: b"", frac: &buf, exp: exp + 2, fam, fmts: MBOTH, expect: None });
                    }
                }
            }
        }));
    }
    jobs
}

// ---------------------------------------------------------------------------
// SEAM
// ---------------------------------------------------------------------------

/// The structured significand set (as exact integers, possibly above 2^64).
pub fn seam_significands() -> Vec<u128> {
    let mut w: Vec<u128> = Vec::new();
    let win = |c: u128, w: &mut Vec<u128>| {
        for d in 0..=66u128 {
            w.push(c - 33 + d);
        }
    };
    win(1 << 24, &mut w);
    win(1 << 53, &mut w);
    win(10u128.pow(19), &mut w);
    win(1u128 << 64, &mut w);
    for k in 1..=21u32 {
        let p = 10u128.pow(k);
        w.extend_from_slice(&[p - 1, p, p + 1]);
    }
    for k in 1..=66u32 {
        let p = 1u128 << k;
        w.extend_from_slice(&[p - 1, p, p + 1]);
    }
    for v in 1..=300u128 {
        w.push(v);
    }
    w.sort();
    w.dedup();
    w
}

/// SEAM: structured significands x every q in `q_lo..=q_hi`, several spellings,
/// plus truncated spellings for 19-digit significands. One job per q.
pub fn seam(q_lo: i32, q_hi: i32) -> Vec<Job> {
    let ws = std::sync::Arc::new(seam_significands());
    let mut jobs: Vec<Job> = Vec::new();
    for q in q_lo..=q_hi {
        let ws = ws.clone();
        jobs.push(Box::new(move |emit: &mut Emit| {
            let mut buf: Vec<u8> = Vec::new();
            for &w in ws.iter() {
                let d = dec_u128(w);
                emit_placements(emit, &d, q as i64, PL_INT | PL_SCI | PL_FRAC, "SEAM", MBOTH, None);
                if d.len() == 19 {
                    // truncated spellings: w.5, w.0^20 1, w.9^20
                    emit(&Case { int: &d, frac: b"5", exp: q, fam: "SEAM-trunc", fmts: MBOTH, expect: None });
                    buf.clear();
                    buf.extend_from_slice(&[b'0'; 20]);
                    buf.push(b'1');
                    emit(&Case { int: &d, frac: &buf, exp: q, fam: "SEAM-trunc", fmts: MBOTH, expect: None });
                    buf.clear();
                    buf.extend_from_slice(&[b'9'; 20]);
                    emit(&Case { int: &d, frac: &buf, exp: q, fam: "SEAM-trunc", fmts: MBOTH, expect: None });
                    // same, all in the integer part
                    buf.clear();
                    buf.extend_from_slice(&d);
                    buf.extend_from_slice(b"99");
                    emit(&Case { int: &buf, frac: b"", exp: q - 2, fam: "SEAM-trunc", fmts: MBOTH, expect: None });
                }
            }
        }));
    }
    jobs
}

// ---------------------------------------------------------------------------
// BOUNDARY
// ---------------------------------------------------------------------------

/// Fraction-field patterns used in every binade.
pub fn patterns(f: Fmt, extra: usize, seed: u64) -> Vec<u64> {
    let mb = f.mant_bits();
    let max = (1u64 << mb) - 1;
    let mut p: Vec<u64> = Vec::new();
    for i in 0..8 {
        p.push(i);
        p.push(max - i);
    }
    for k in 0..mb {
        p.push(1u64 << k);
        p.push((1u64 << k) - 1);
        p.push(max ^ ((1u64 << k) - 1)); // leading run of ones
    }
    p.push(0x5555_5555_5555_5555 & max);
    p.push(0xAAAA_AAAA_AAAA_AAAA & max);
    let mut s = seed ^ 0xB0DA_71E5 ^ ((f.p as u64) << 32);
    for _ in 0..extra {
        p.push(splitmix(&mut s) & max);
    }
    p.sort();
    p.dedup();
    p
}

fn fmt_mask(f: Fmt) -> u8 {
    if f == F32 {
        M32
    } else {
        M64
    }
}

/// Decimal increment/decrement by one unit in the last place of a positive digit string
/// (with carry / borrow; a leading zero produced by the borrow is removed).
pub fn bump_last(d: &[u8], up: bool) -> Vec<u8> {
    let mut v = d.to_vec();
    let mut i = v.len();
    if up {
        loop {
            if i == 0 {
                v.insert(0, b'1');
                break;
            }
            i -= 1;
            if v[i] == b'9' {
                v[i] = b'0';
            } else {
                v[i] += 1;
                break;
            }
        }
    } else {
        loop {
            assert!(i > 0, "bump_last: decrement of zero");
            i -= 1;
            if v[i] == b'0' {
                v[i] = b'9';
            } else {
                v[i] -= 1;
                break;
            }
        }
        while v.len() > 1 && v[0] == b'0' {
            v.remove(0);
        }
    }
    v
}

/// Exact expansion of `k * 2^j` with the power of ten forced to be <= 0 (integers are written out
/// in full), so that "one unit in the last place" is never larger than the spacing of floats.
pub fn expand_full(k: u64, j: i32) -> (Vec<u8>, i64) {
    let (mut d, e) = expand(k, j);
    if e > 0 {
        d.resize(d.len() + e as usize, b'0');
        (d, 0)
    } else {
        (d, e)
    }
}

fn strip0(d: &[u8], e: i64) -> (Vec<u8>, i64) {
    let mut v = d.to_vec();
    let mut e = e;
    while v.last() == Some(&b'0') {
        v.pop();
        e += 1;
    }
    (v, e)
}

/// Shortest / fixed-precision renderings of a finite float via `core::fmt`.
pub fn render_sci(f: Fmt, bits: u64, prec: Option<usize>) -> (Vec<u8>, i64) {
    let s = match (f == F32, prec) {
        (true, None) => format!("{:e}", f32::from_bits(bits as u32)),
        (true, Some(p)) => format!("{:.*e}", p, f32::from_bits(bits as u32)),
        (false, None) => format!("{:e}", f64::from_bits(bits)),
        (false, Some(p)) => format!("{:.*e}", p, f64::from_bits(bits)),
    };
    let (m, e) = s.split_at(s.find('e').unwrap());
    let e: i64 = e[1..].parse().unwrap();
    let mut digits: Vec<u8> = m.bytes().filter(|c| *c != b'.').collect();
    let point = 1; // one digit before the point
    let mut exp10 = e - (digits.len() as i64 - point);
    while digits.last() == Some(&b'0') {
        digits.pop();
        exp10 += 1;
    }
    if digits.is_empty() {
        return (digits, 0);
    }
    (digits, exp10)
}

/// The pair `(a, succ a)` and the light variant set around their midpoint.
pub fn boundary_light_pair(emit: &mut Emit, f: Fmt, a: u64, placements: u8) {
    let mask = fmt_mask(f);
    let b = a + 1;
    let (k, j) = f.upper_boundary(a);
    let (hd, he) = expand_full(k, j);
    let even = if a & 1 == 0 { a } else { b };
    // 1. the tie itself
    let (td, te) = strip0(&hd, he);
    emit_placements(emit, &td, te, placements, "BND-tie", mask, Some(even));
    // 3. one unit in the last place either way
    emit_placements(emit, &bump_last(&hd, true), he, placements, "BND-ulp-above", mask, Some(b));
    emit_placements(emit, &bump_last(&hd, false), he, placements, "BND-ulp-below", mask, Some(a));
    // far digit each way
    let mut v = hd.clone();
    v.extend_from_slice(&[b'0'; 25]);
    v.push(b'1');
    emit_placements(emit, &v, he - 26, placements, "BND-far-above", mask, Some(b));
    let mut v = bump_last(&hd, false);
    v.extend_from_slice(&[b'9'; 26]);
    emit_placements(emit, &v, he - 26, placements, "BND-far-below", mask, Some(a));
    // 6. a itself: exact, shortest, 9/17 digits
    let (m, e) = f.decode(a);
    let (ad, ae) = expand(m, e);
    emit_placements(emit, &ad, ae, placements, "BND-exact", mask, Some(a));
    let (sd, se) = render_sci(f, a, None);
    emit_placements(emit, &sd, se, placements, "BND-shortest", mask, Some(a));
    let (sd, se) = render_sci(f, a, Some(if f == F32 { 8 } else { 16 }));
    emit_placements(emit, &sd, se, placements, "BND-17", mask, Some(a));
}

/// BOUNDARY-LIGHT: every binade x every pattern. One job per binade.
pub fn boundary_light(f: Fmt, extra_patterns: usize, seed: u64, binade_stride: u64, placements: u8) -> Vec<Job> {
    let pats = std::sync::Arc::new(patterns(f, extra_patterns, seed));
    let mut jobs: Vec<Job> = Vec::new();
    let mut be = 0u64;
    while be < f.binades() {
        let pats = pats.clone();
        jobs.push(Box::new(move |emit: &mut Emit| {
            for &p in pats.iter() {
                let a = (be << f.mant_bits()) | p;
                if a >= f.inf_bits() {
                    continue;
                }
                boundary_light_pair(emit, f, a, placements);
            }
        }));
        be += binade_stride;
    }
    jobs
}

/// Complete enumeration of every adjacent pair of one binade (f32 only in practice).
/// `chunks` jobs per binade.
pub fn boundary_full_binade(f: Fmt, be: u64, chunks: u64, stride: u64, offset: u64) -> Vec<Job> {
    let n = 1u64 << f.mant_bits();
    let mut jobs: Vec<Job> = Vec::new();
    for c in 0..chunks {
        jobs.push(Box::new(move |emit: &mut Emit| {
            let lo = n * c / chunks;
            let hi = n * (c + 1) / chunks;
            let mask = fmt_mask(f);
            for fr in (lo..hi).filter(|x| x % stride == offset % stride) {
                let a = (be << f.mant_bits()) | fr;
                if a >= f.inf_bits() {
                    continue;
                }
                let b = a + 1;
                let (k, j) = f.upper_boundary(a);
                let (hd, he) = expand_full(k, j);
                let even = if a & 1 == 0 { a } else { b };
                let (td, te) = strip0(&hd, he);
                emit_placements(emit, &td, te, PL_SCI, "MID-tie", mask, Some(even));
                let mut v = hd.clone();
                v.extend_from_slice(&[b'0'; 25]);
                v.push(b'1');
                emit_placements(emit, &v, he - 26, PL_SCI, "MID-far-above", mask, Some(b));
                let mut v = bump_last(&hd, false);
                v.extend_from_slice(&[b'9'; 26]);
                emit_placements(emit, &v, he - 26, PL_SCI, "MID-far-below", mask, Some(a));
            }
        }));
    }
    jobs
}

/// The named pairs every deep family includes.
pub fn named_pairs(f: Fmt) -> Vec<u64> {
    let mb = f.mant_bits();
    let one = (f.bias() as u64) << mb;
    let mut v = vec![
        0,                       // (0, min subnormal)
        1,                       // (min, 2*min)
        f.min_normal_bits() - 1, // (max subnormal, min normal)
        f.min_normal_bits(),
        f.max_finite_bits(),     // (max, inf)
        f.max_finite_bits() - 1,
        one,                     // 1 + 2^-p
        one - 1,
        ((f.bias() as u64 + mb as u64 + 1) << mb), // 2^p: (2^p, 2^p + 2)
        ((f.bias() as u64 + mb as u64) << mb) | ((1u64 << mb) - 1), // 2^p - 1 .. 2^p
        ((f.bias() as u64 + mb as u64) << mb),     // 2^(p-1) .. +1 : midpoint 2^(p-1)+0.5
        (2u64 << mb) - 2,        // just below the second binade
        (1u64 << mb) | ((1u64 << mb) - 1), // top of the first normal binade
    ];
    v.sort();
    v.dedup();
    v
}

/// Offsets at which the deciding digit is placed (variant 4 of V(H)).
pub fn deep_offsets(len: usize, max_digits: usize, thorough: bool) -> Vec<usize> {
    let mut j: Vec<usize> = vec![0, 1, 2, 800, 5000];
    for c in 17..=21 {
        j.push(c);
    }
    for c in 36..=40 {
        j.push(c);
    }
    let mut c = 19usize;
    while c <= 800 {
        j.extend_from_slice(&[c - 1, c, c + 1]);
        // the same edges relative to the start of the digit string
        if c > len {
            j.extend_from_slice(&[c - len - 1, c - len, c - len + 1]);
        }
        c += 19;
    }
    for d in 0..=6usize {
        // deciding digit lands on MAX_DIGITS - 3 .. MAX_DIGITS + 3
        if max_digits + d >= len + 4 {
            j.push(max_digits + d - len - 4);
        }
    }
    if thorough {
        j.push(100_000);
        j.push(1_000_000);
    }
    j.sort();
    j.dedup();
    j
}

/// BOUNDARY-DEEP on one pair: the full V(H).
pub fn boundary_deep_pair(emit: &mut Emit, f: Fmt, a: u64, max_digits: usize, thorough: bool) {
    let mask = fmt_mask(f);
    let b = a + 1;
    let (k, j) = f.upper_boundary(a);
    let (hd, he) = expand_full(k, j);
    let len = hd.len();
    let even = if a & 1 == 0 { a } else { b };
    let pl = PL_INT | PL_SCI | PL_FRACZ;
    boundary_light_pair(emit, f, a, PL_ALL);
    // 2. truncations of H at k digits: below; truncated + 1 unit: above
    let mut ks: Vec<usize> = (1..=25).collect();
    ks.extend_from_slice(&[30, 40, 100]);
    if len > 2 {
        ks.push(len - 2);
        ks.push(len - 1);
    }
    ks.sort();
    ks.dedup();
    for &kk in &ks {
        if kk >= len {
            continue;
        }
        // truncated (strictly below H because the dropped tail is non-zero: H ends in 5)
        let mut t = hd[..kk].to_vec();
        let te = he + (len - kk) as i64;
        let mut tt = t.clone();
        while tt.last() == Some(&b'0') {
            tt.pop();
        }
        if !tt.is_empty() {
            let shift = (t.len() - tt.len()) as i64;
            // truncation may fall below `a`: expectation is left to the exact oracle
            emit_placements(emit, &tt, te + shift, pl, "DEEP-trunc", mask, None);
        }
        // truncated + 1 unit in the last kept place (strictly above H)
        let mut i = t.len();
        loop {
            if i == 0 {
                t.insert(0, b'1');
                break;
            }
            i -= 1;
            if t[i] == b'9' {
                t[i] = b'0';
            } else {
                t[i] += 1;
                break;
            }
        }
        let mut shift = 0i64;
        while t.last() == Some(&b'0') {
            t.pop();
            shift += 1;
        }
        emit_placements(emit, &t, te + shift, pl, "DEEP-trunc+1", mask, None);
    }
    // 4. deciding digit at every offset
    for &o in &deep_offsets(len, max_digits, thorough) {
        for d in [b'1', b'9'] {
            let mut v = hd.clone();
            v.resize(len + o, b'0');
            v.push(d);
            let e = he - o as i64 - 1;
            emit_placements(emit, &v, e, pl, "DEEP-above", mask, Some(b));
            // long integer part, short fraction: split just before the deciding digit
            if let Some(ex) = clamp_i32(e + 1) {
                let n = v.len();
                emit(&Case { int: &v[..n - 1], frac: &v[n - 1..], exp: ex, fam: "DEEP-above-intcut", fmts: mask, expect: Some(b) });
            }
        }
        let mut v = bump_last(&hd, false);
        v.resize(len + o + 1, b'9');
        let e = he - o as i64 - 1;
        emit_placements(emit, &v, e, pl, "DEEP-below", mask, Some(a));
        if let Some(ex) = clamp_i32(e + 1) {
            let n = v.len();
            emit(&Case { int: &v[..n - 1], frac: &v[n - 1..], exp: ex, fam: "DEEP-below-intcut", fmts: mask, expect: Some(a) });
        }
    }
    // 5. trailing zeros keep the tie (appended to the fraction)
    for z in [1usize, 2, 19, 20, 40, 800] {
        let mut fr = hd[1..].to_vec();
        fr.resize(len - 1 + z, b'0');
        if let Some(ex) = clamp_i32(he + len as i64 - 1) {
            emit(&Case { int: &hd[..1], frac: &fr, exp: ex, fam: "DEEP-tie-zeros", fmts: mask, expect: Some(even) });
        }
        // ... and as an integer with trailing zeros
        let mut iv = hd.clone();
        iv.resize(len + z, b'0');
        if let Some(ex) = clamp_i32(he - z as i64) {
            emit(&Case { int: &iv, frac: b"", exp: ex, fam: "DEEP-tie-zeros", fmts: mask, expect: Some(even) });
        }
    }
    // split placements at p in {19, 20, len/2, MAXD-1, MAXD, MAXD+1, total-1} on tie and far variants
    let mut far = hd.clone();
    far.resize(len + 30, b'0');
    far.push(b'7');
    for (digits, e, exp_bits, fam) in
        [(&hd, he, even, "DEEP-split-tie"), (&far, he - 31, b, "DEEP-split-above")]
    {
        let n = digits.len();
        for p in [1usize, 19, 20, 21, n / 2, max_digits.saturating_sub(1), max_digits, max_digits + 1, n - 1] {
            if p == 0 || p >= n {
                continue;
            }
            if let Some(ex) = clamp_i32(e + (n - p) as i64) {
                emit(&Case { int: &digits[..p], frac: &digits[p..], exp: ex, fam, fmts: mask, expect: Some(exp_bits) });
            }
        }
    }
}

/// BOUNDARY-DEEP: named pairs plus every `stride`-th binade (pattern: three per binade).
pub fn boundary_deep(f: Fmt, stride: u64, seed: u64, max_digits: usize, thorough: bool) -> Vec<Job> {
    let mut pairs = named_pairs(f);
    let mut be = seed % stride;
    let max = (1u64 << f.mant_bits()) - 1;
    while be < f.binades() {
        pairs.push(be << f.mant_bits());
        pairs.push((be << f.mant_bits()) | max);
        pairs.push((be << f.mant_bits()) | (0x5555_5555_5555_5555 & max));
        be += stride;
    }
    pairs.sort();
    pairs.dedup();
    pairs.retain(|&a| a < f.inf_bits());
    pairs
        .into_iter()
        .map(|a| -> Job { Box::new(move |emit: &mut Emit| boundary_deep_pair(emit, f, a, max_digits, thorough)) })
        .collect()
}

// ---------------------------------------------------------------------------
// EXTREME
// ---------------------------------------------------------------------------

pub fn extreme_exponents() -> Vec<i32> {
    let mut x: Vec<i64> = vec![
        i32::MIN as i64,
        i32::MIN as i64 + 1,
        i32::MIN as i64 + 2,
        i32::MIN as i64 + 4999,
        i32::MIN as i64 + 5000,
        i32::MIN as i64 + 5001,
        -1_000_000_000,
        -65536,
        -0x1001,
        -0x1000,
        -0xFFF,
        0xFFF,
        0x1000,
        0x1001,
        65536,
        1_000_000_000,
        i32::MAX as i64 - 5001,
        i32::MAX as i64 - 5000,
        i32::MAX as i64 - 4999,
        i32::MAX as i64 - 1,
        i32::MAX as i64,
    ];
    for e in -1200..=1200 {
        x.push(e);
    }
    x.sort();
    x.dedup();
    x.into_iter().map(|e| e as i32).collect()
}

fn rep(c: u8, n: usize) -> Vec<u8> {
    vec![c; n]
}

/// Digit shapes of EXTREME: (int, frac, label).
pub fn extreme_shapes(thorough: bool) -> Vec<(Vec<u8>, Vec<u8>)> {
    let mut s: Vec<(Vec<u8>, Vec<u8>)> = Vec::new();
    let e = Vec::new;
    s.push((e(), e()));
    s.push((e(), b"0".to_vec()));
    s.push((e(), rep(b'0', 40)));
    s.push((b"1".to_vec(), e()));
    s.push((b"9".to_vec(), e()));
    s.push((e(), b"1".to_vec()));
    s.push((rep(b'9', 19), e()));
    s.push((rep(b'9', 20), e()));
    s.push((rep(b'9', 21), e()));
    s.push((e(), rep(b'9', 19)));
    s.push((e(), rep(b'9', 20)));
    s.push((rep(b'9', 10), rep(b'9', 10)));
    s.push((rep(b'9', 800), e()));
    s.push((e(), rep(b'9', 800)));
    let mut ks = vec![19usize, 20, 400, 5000];
    if thorough {
        ks.push(1_000_000);
    }
    for &k in &ks {
        // 1 0^k
        let mut v = b"1".to_vec();
        v.extend(rep(b'0', k));
        s.push((v, e()));
        // 1 0^k . 1
        let mut v = b"1".to_vec();
        v.extend(rep(b'0', k));
        s.push((v, b"1".to_vec()));
        // . 0^k 1
        let mut v = rep(b'0', k);
        v.push(b'1');
        s.push((e(), v));
        // 1 . 0^k 1
        let mut v = rep(b'0', k);
        v.push(b'1');
        s.push((b"1".to_vec(), v));
    }
    s
}

/// EXTREME: every exponent class x every shape, plus compensated spellings whose value is moderate.
pub fn extreme(thorough: bool) -> Vec<Job> {
    let shapes = std::sync::Arc::new(extreme_shapes(thorough));
    let exps = extreme_exponents();
    let mut jobs: Vec<Job> = Vec::new();
    for chunk in exps.chunks(64) {
        let chunk = chunk.to_vec();
        let shapes = shapes.clone();
        jobs.push(Box::new(move |emit: &mut Emit| {
            for (i, f) in shapes.iter() {
                if i.len() + f.len() > 100_000 {
                    // million-digit shapes: only a handful of exponents
                    for &e in &[i32::MIN, -1_000_000, -999_700, 0, 999_700, 1_000_000, i32::MAX] {
                        if chunk.contains(&0) {
                            emit(&Case { int: i, frac: f, exp: e, fam: "EXTREME-1M", fmts: MBOTH, expect: None });
                        }
                    }
                    continue;
                }
                for &e in &chunk {
                    emit(&Case { int: i, frac: f, exp: e, fam: "EXTREME", fmts: MBOTH, expect: None });
                }
            }
        }));
    }
    // compensated: value = d * 10^t for moderate t, written with k extra zeros
    jobs.push(Box::new(move |emit: &mut Emit| {
        let mut ks = vec![19usize, 20, 400, 5000, 65536];
        if thorough {
            ks.push(1_000_000);
        }
        for &k in &ks {
            for t in [-330i64, -324, -323, -46, -45, -22, 0, 22, 38, 39, 308, 309] {
                for d in [b"1".as_ref(), b"9", b"17976931348623157", b"24703282292062328", b"34028235", b"34028236"] {
                    // d 0^k e(t-k)
                    let mut v = d.to_vec();
                    v.extend(rep(b'0', k));
                    if let Some(ex) = clamp_i32(t - k as i64) {
                        emit(&Case { int: &v, frac: b"", exp: ex, fam: "EXTREME-comp", fmts: MBOTH, expect: None });
                    }
                    // . 0^k d e(t+k+len)
                    let mut v = rep(b'0', k);
                    v.extend_from_slice(d);
                    if let Some(ex) = clamp_i32(t + (k + d.len()) as i64) {
                        emit(&Case { int: b"", frac: &v, exp: ex, fam: "EXTREME-comp", fmts: MBOTH, expect: None });
                    }
                }
            }
        }
    }));
    jobs
}

// ---------------------------------------------------------------------------
// THRESHOLDS (C07)
// ---------------------------------------------------------------------------

/// The IEEE thresholds of a format as `k * 2^j`.
pub fn thresholds(f: Fmt) -> Vec<(u64, i32, &'static str)> {
    let em = f.emin_ulp();
    let p = f.p;
    let (km, jm) = f.upper_boundary(f.max_finite_bits());
    let (m, e) = f.decode(f.max_finite_bits());
    vec![
        (1, em - 1, "half-min-subnormal"),
        (1, em, "min-subnormal"),
        (3, em - 1, "1.5-min-subnormal"),
        ((1u64 << p) - 1, em - 1, "below-min-normal-mid"),
        ((1u64 << (p - 1)) - 1, em, "max-subnormal"),
        (1u64 << (p - 1), em, "min-normal"),
        (m, e, "max-finite"),
        (km, jm, "overflow-threshold"),
    ]
}

/// Every prefix length of each threshold (truncated, truncated+1), +-1 unit, far digits,
/// each re-spelled with compensating zeros. One job per threshold.
pub fn threshold_family(f: Fmt, thorough: bool) -> Vec<Job> {
    let mask = fmt_mask(f);
    let mut jobs: Vec<Job> = Vec::new();
    for (k, j, _name) in thresholds(f) {
        jobs.push(Box::new(move |emit: &mut Emit| {
            let (hd, he) = expand_full(k, j);
            let len = hd.len();
            let mut zs = vec![0usize, 1, 19, 20, 400, 5000];
            if thorough {
                zs.push(100_000);
            }
            let mut variants: Vec<(Vec<u8>, i64)> = Vec::new();
            variants.push((hd.clone(), he));
            for kk in 1..len {
                let t = hd[..kk].to_vec();
                let te = he + (len - kk) as i64;
                let mut tt = t.clone();
                let mut sh = 0;
                while tt.last() == Some(&b'0') {
                    tt.pop();
                    sh += 1;
                }
                if !tt.is_empty() {
                    variants.push((tt, te + sh));
                }
                let mut u = t.clone();
                let mut i = u.len();
                loop {
                    if i == 0 {
                        u.insert(0, b'1');
                        break;
                    }
                    i -= 1;
                    if u[i] == b'9' {
                        u[i] = b'0';
                    } else {
                        u[i] += 1;
                        break;
                    }
                }
                let mut sh = 0;
                while u.last() == Some(&b'0') {
                    u.pop();
                    sh += 1;
                }
                variants.push((u, te + sh));
            }
            // +-1 unit in the last place, far digits
            {
                let (u, ue) = strip0(&bump_last(&hd, true), he);
                variants.push((u, ue));
                let (u, ue) = strip0(&bump_last(&hd, false), he);
                variants.push((u, ue));
                let mut v = bump_last(&hd, false);
                v.extend(rep(b'9', 30));
                variants.push((v, he - 30));
            }
            let mut v = hd.clone();
            v.extend(rep(b'0', 30));
            v.push(b'1');
            variants.push((v, he - 31));
            for (i, (d, e)) in variants.iter().enumerate() {
                emit_placements(emit, d, *e, PL_SCI | PL_INT | PL_FRAC, "THR", mask, None);
                // compensated spellings on a thinned subset of prefixes (every 8th) and all the named ones
                if i % 8 == 0 || i + 6 >= variants.len() {
                    for &z in &zs {
                        if z == 0 {
                            continue;
                        }
                        // leading fraction zeros
                        let mut fr = rep(b'0', z);
                        fr.extend_from_slice(d);
                        if d.last() != Some(&b'0') {
                            if let Some(ex) = clamp_i32(*e + (d.len() + z) as i64) {
                                emit(&Case { int: b"", frac: &fr, exp: ex, fam: "THR-comp", fmts: mask, expect: None });
                            }
                        }
                        // trailing integer zeros
                        let mut iv = d.clone();
                        iv.extend(rep(b'0', z));
                        if let Some(ex) = clamp_i32(*e - z as i64) {
                            emit(&Case { int: &iv, frac: b"", exp: ex, fam: "THR-comp", fmts: mask, expect: None });
                        }
                    }
                }
            }
        }));
    }
    jobs
}

// ---------------------------------------------------------------------------
// (w, q) lists rendered as digit strings (HARD family, produced by gen/hardcases.py)
// ---------------------------------------------------------------------------

/// Render `(w, q)` plainly and, for 19/20-digit `w`, with truncated tails.
pub fn wq_cases(emit: &mut Emit, w: u64, q: i32, fmts: u8, fam: &'static str) {
    let d = dec_u128(w as u128);
    if d.is_empty() {
        return;
    }
    emit(&Case { int: &d, frac: b"", exp: q, fam, fmts, expect: None });
    if d.len() >= 19 {
        for tail in [b"01".as_ref(), b"5", b"99"] {
            emit(&Case { int: &d, frac: tail, exp: q, fam, fmts, expect: None });
        }
        // one more significant digit moved into the integer part
        let mut v = d.clone();
        v.push(b'9');
        emit(&Case { int: &v, frac: b"", exp: q - 1, fam, fmts, expect: None });
    }
}

/// Integer `n` as decimal digits (helper shared with the drivers).
pub fn nat_digits(n: &Nat) -> Vec<u8> {
    n.to_dec()
}

pub fn fmt_of(mask: u8) -> Fmt {
    if mask == M32 {
        F32
    } else {
        F64
    }
}

// ---------------------------------------------------------------------------
// BOUNDARY-LIGHT on a chosen list of binades (C07: the ends of the range)
// ---------------------------------------------------------------------------
pub fn boundary_light_binades(f: Fmt, binades: &[u64], extra_patterns: usize, seed: u64, placements: u8) -> Vec<Job> {
    let pats = std::sync::Arc::new(patterns(f, extra_patterns, seed));
    let mut jobs: Vec<Job> = Vec::new();
    for &be in binades {
        let pats = pats.clone();
        jobs.push(Box::new(move |emit: &mut Emit| {
            for &p in pats.iter() {
                let a = (be << f.mant_bits()) | p;
                if a >= f.inf_bits() {
                    continue;
                }
                boundary_light_pair(emit, f, a, placements);
            }
        }));
    }
    jobs
}

// ---------------------------------------------------------------------------
// LONG (C04): digit strings of length 10^4 .. 10^6
// ---------------------------------------------------------------------------
pub fn long_family(thorough: bool) -> Vec<Job> {
    let mut lens = vec![10_000usize, 100_000];
    if thorough {
        lens.push(1_000_000);
    }
    let mut jobs: Vec<Job> = Vec::new();
    for k in lens {
        for shape in 0..5usize {
            jobs.push(Box::new(move |emit: &mut Emit| {
                let digits: Vec<u8> = match shape {
                    0 => vec![b'9'; k],
                    1 => {
                        let mut v = vec![b'0'; k];
                        v[0] = b'1';
                        v
                    },
                    2 => (0..k).map(|i| if i % 2 == 0 { b'1' } else { b'2' }).collect(),
                    3 => {
                        let mut v = vec![b'0'; k];
                        v[0] = b'1';
                        v[k - 1] = b'1';
                        v
                    },
                    _ => (0..k).map(|i| b'1' + (i % 9) as u8).collect(),
                };
                let kk = k as i64;
                let exps: Vec<i64> = vec![
                    i32::MIN as i64, -kk - 400, -kk - 308, -kk - 1, -kk, -kk + 1, -kk + 308, -kk + 309, -kk / 2, -1, 0, 1, 308, kk, i32::MAX as i64,
                ];
                for &e in &exps {
                    if let Some(ex) = clamp_i32(e) {
                        // all-integer
                        emit(&Case { int: &digits, frac: b"", exp: ex, fam: "LONG", fmts: MBOTH, expect: None });
                    }
                    // all-fraction: value = 0.digits * 10^e'
                    if digits[k - 1] != b'0' {
                        if let Some(ex) = clamp_i32(e + kk) {
                            emit(&Case { int: b"", frac: &digits, exp: ex, fam: "LONG", fmts: MBOTH, expect: None });
                        }
                        // split in the middle
                        if let Some(ex) = clamp_i32(e + kk / 2) {
                            let p = k - k / 2;
                            emit(&Case { int: &digits[..p], frac: &digits[p..], exp: ex, fam: "LONG", fmts: MBOTH, expect: None });
                        }
                    }
                }
                // leading fraction zeros then one digit
                let mut z = vec![b'0'; k];
                z.push(b'7');
                for &e in &[i32::MIN as i64, 0, kk - 330, kk - 45, kk, kk + 1, kk + 38, kk + 308, kk + 309, i32::MAX as i64] {
                    if let Some(ex) = clamp_i32(e) {
                        emit(&Case { int: b"", frac: &z, exp: ex, fam: "LONG", fmts: MBOTH, expect: None });
                    }
                }
            }));
        }
    }
    jobs
}

// ---------------------------------------------------------------------------
// Groups: chains (C09) and re-spellings (C10).
// The first case of a group carries a family label ending in '^'.
// ---------------------------------------------------------------------------

/// Chain elements between consecutive integers `w` and `w+1` (exclusive of `w+1`), ascending:
/// w, w + 10^-pad-ish, w.5, w.5 + far digit, w.99..9
fn emit_between(emit: &mut Emit, d: &[u8], q: i32, first: bool) {
    let start = if first { "CHAIN-w^" } else { "CHAIN-w" };
    emit(&Case { int: d, frac: b"", exp: q, fam: start, fmts: MBOTH, expect: None });
    let pad = if d.len() < 24 { 24 - d.len() } else { 1 };
    let mut f = vec![b'0'; pad];
    f.push(b'1');
    emit(&Case { int: d, frac: &f, exp: q, fam: "CHAIN-w+tiny", fmts: MBOTH, expect: None });
    emit(&Case { int: d, frac: b"5", exp: q, fam: "CHAIN-w.5", fmts: MBOTH, expect: None });
    let mut f = vec![b'0'; pad + 1];
    f[0] = b'5';
    f.push(b'1');
    emit(&Case { int: d, frac: &f, exp: q, fam: "CHAIN-w.5+tiny", fmts: MBOTH, expect: None });
    let f = vec![b'9'; pad + 2];
    emit(&Case { int: d, frac: &f, exp: q, fam: "CHAIN-w.99", fmts: MBOTH, expect: None });
}

/// (1) for every q: the whole sorted SEAM significand list with in-between elements where w+1 is the next element.
pub fn chains_w(q_lo: i32, q_hi: i32) -> Vec<Job> {
    let ws = std::sync::Arc::new(seam_significands());
    let mut jobs: Vec<Job> = Vec::new();
    for q in q_lo..=q_hi {
        let ws = ws.clone();
        jobs.push(Box::new(move |emit: &mut Emit| {
            for (i, &w) in ws.iter().enumerate() {
                let d = dec_u128(w);
                let consecutive = i + 1 < ws.len() && ws[i + 1] == w + 1;
                if consecutive || i + 1 < ws.len() {
                    // in-between elements are < w+1 <= next element in either case
                    emit_between(emit, &d, q, i == 0);
                } else {
                    emit(&Case { int: &d, frac: b"", exp: q, fam: "CHAIN-w", fmts: MBOTH, expect: None });
                }
            }
        }));
    }
    jobs
}

/// (2) same digits, consecutive exponents.
pub fn chains_q(q_lo: i32, q_hi: i32) -> Vec<Job> {
    let ws = seam_significands();
    let mut jobs: Vec<Job> = Vec::new();
    for chunk in ws.chunks(16) {
        let chunk = chunk.to_vec();
        jobs.push(Box::new(move |emit: &mut Emit| {
            for &w in &chunk {
                let d = dec_u128(w);
                for q in q_lo..=q_hi {
                    emit(&Case { int: &d, frac: b"", exp: q, fam: if q == q_lo { "CHAIN-q^" } else { "CHAIN-q" }, fmts: MBOTH, expect: None });
                }
                // the same with a truncated 25-digit spelling
                let mut f = vec![b'0'; 24];
                f.push(b'1');
                for q in q_lo..=q_hi {
                    emit(&Case { int: &d, frac: &f, exp: q, fam: if q == q_lo { "CHAIN-q^" } else { "CHAIN-q" }, fmts: MBOTH, expect: None });
                }
            }
        }));
    }
    jobs
}

/// (3) runs of consecutive floats: exact(a), below(H_a), H_a, above(H_a), exact(a+1), ...
pub fn chains_floats(f: Fmt, run: u64, extra_patterns: usize, seed: u64, binade_stride: u64) -> Vec<Job> {
    let pats = std::sync::Arc::new(patterns(f, extra_patterns, seed));
    let mask = fmt_mask(f);
    let mut jobs: Vec<Job> = Vec::new();
    let mut be = 0;
    while be < f.binades() {
        let pats = pats.clone();
        jobs.push(Box::new(move |emit: &mut Emit| {
            for &p in pats.iter() {
                let a0 = (be << f.mant_bits()) | p;
                let mut first = true;
                for a in a0..a0 + run {
                    if a >= f.inf_bits() {
                        break;
                    }
                    let (m, e) = f.decode(a);
                    let (ad, ae) = expand(m, e);
                    emit_placements(emit, &ad, ae, PL_SCI, if first { "CHAIN-f^" } else { "CHAIN-f" }, mask, None);
                    if ad.len() <= 1 {
                        // PL_SCI skips one-digit strings: emit as integer instead
                        emit_placements(emit, &ad, ae, PL_INT, if first { "CHAIN-f^" } else { "CHAIN-f" }, mask, None);
                    }
                    first = false;
                    let (k, j) = f.upper_boundary(a);
                    let (hd, he) = expand_full(k, j);
                    // a <= H - unit < H - far < H < H + far < H + unit <= succ(a), unit = one in the last place of
                    // the fully written expansion (an integer step for integer midpoints: the exact-integer path)
                    let one = |emit: &mut Emit, d: &[u8], e: i64| {
                        let (sd, se) = strip0(d, e);
                        // integers are written as integers (no exponent), everything else in scientific notation
                        if e == 0 {
                            emit_placements(emit, d, 0, PL_INT, "CHAIN-f", mask, None);
                        } else {
                            emit_placements(emit, &sd, se, if sd.len() > 1 { PL_SCI } else { PL_INT }, "CHAIN-f", mask, None);
                        }
                    };
                    one(emit, &bump_last(&hd, false), he);
                    let mut v = bump_last(&hd, false);
                    v.extend_from_slice(&[b'9'; 26]);
                    emit_placements(emit, &v, he - 26, PL_SCI, "CHAIN-f", mask, None);
                    one(emit, &hd, he);
                    let mut v = hd.clone();
                    v.extend_from_slice(&[b'0'; 25]);
                    v.push(b'1');
                    emit_placements(emit, &v, he - 26, PL_SCI, "CHAIN-f", mask, None);
                    one(emit, &bump_last(&hd, true), he);
                }
            }
        }));
        be += binade_stride;
    }
    jobs
}

/// (3b) rich runs: around every 8th pattern (and three fixed ones) per binade, a run of `run` consecutive floats with, for every float, its
/// exact / shortest / 9-or-17-digit renderings and, for every midpoint, unit and far-digit neighbours **and its
/// truncations to 15..=20 digits (and those plus one unit)** - the short inputs next to a rounding boundary that
/// the moderate stage decides on its own. The elements are sorted by exact decimal comparison before they are emitted.
pub fn chains_floats_rich(f: Fmt, run: u64, binade_stride: u64) -> Vec<Job> {
    use crate::exact::DecN;
    let mask = fmt_mask(f);
    let max = (1u64 << f.mant_bits()) - 1;
    let mut jobs: Vec<Job> = Vec::new();
    let mut be = 0;
    while be < f.binades() {
        jobs.push(Box::new(move |emit: &mut Emit| {
            let mut ps: Vec<u64> = vec![0u64, max - (run - 2).min(max), 0x5555_5555_5555_5555 & max];
            ps.extend(patterns(f, 0, 0).into_iter().step_by(8));
            ps.sort();
            ps.dedup();
            for p in ps {
                let a0 = (be << f.mant_bits()) | p;
                let mut el: Vec<(Vec<u8>, i64)> = Vec::new();
                for a in a0..a0 + run {
                    if a >= f.inf_bits() {
                        break;
                    }
                    let (m, e) = f.decode(a);
                    el.push(expand(m, e));
                    el.push(render_sci(f, a, None));
                    el.push(render_sci(f, a, Some(if f == F32 { 8 } else { 16 })));
                    let (k, j) = f.upper_boundary(a);
                    let (hd, he) = expand_full(k, j);
                    el.push(strip0(&hd, he));
                    el.push(strip0(&bump_last(&hd, true), he));
                    el.push(strip0(&bump_last(&hd, false), he));
                    for kk in 15..=20usize {
                        if kk < hd.len() {
                            let t = &hd[..kk];
                            let te = he + (hd.len() - kk) as i64;
                            let tt = strip0(t, te);
                            if !tt.0.is_empty() {
                                el.push(tt);
                            }
                            el.push(strip0(&bump_last(t, true), te));
                        }
                    }
                }
                el.retain(|(d, _)| !d.is_empty());
                let mut keyed: Vec<(DecN, Vec<u8>, i64)> = el.into_iter().map(|(d, e)| (DecN::from_digits(&d, e), d, e)).collect();
                keyed.sort_by(|x, y| x.0.cmp_dec(&y.0));
                let mut first = true;
                for (_, d, e) in keyed {
                    let fam = if first { "CHAIN-r^" } else { "CHAIN-r" };
                    first = false;
                    emit_placements(emit, &d, e, if d.len() > 1 { PL_SCI } else { PL_INT }, fam, mask, None);
                }
            }
        }));
        be += binade_stride;
    }
    jobs
}

/// (4) far-digit chains: prefix . 0^j . d for d = 0..9, prefix = midpoints of named pairs.
pub fn chains_far(f: Fmt) -> Vec<Job> {
    let mask = fmt_mask(f);
    let pairs = named_pairs(f);
    vec![Box::new(move |emit: &mut Emit| {
        for &a in &pairs {
            if a >= f.inf_bits() {
                continue;
            }
            let (k, j) = f.upper_boundary(a);
            let (hd, he) = expand_full(k, j);
            for jz in [0usize, 1, 18, 19, 20, 40, 767, 768, 769, 800, 3000] {
                for d in 0..=9u8 {
                    let mut v = hd.clone();
                    v.resize(hd.len() + jz, b'0');
                    v.push(b'0' + d);
                    let n = v.len();
                    if let Some(ex) = clamp_i32(he - jz as i64 - 1 + (n as i64 - 1)) {
                        emit(&Case { int: &v[..1], frac: &v[1..], exp: ex, fam: if d == 0 { "CHAIN-far^" } else { "CHAIN-far" }, fmts: mask, expect: None });
                    }
                }
            }
        }
    })]
}

/// Every spelling of `digits * 10^exp10` (C10): every split position with compensating exponent,
/// leading fraction zeros when the integer part is empty, 0..=40 appended fraction zeros.
pub fn respell(emit: &mut Emit, digits: &[u8], exp10: i64, fmts: u8, appended: usize) {
    let n = digits.len();
    let mut first = true;
    let mut lab = |first: &mut bool| -> &'static str {
        if *first {
            *first = false;
            "RESPELL^"
        } else {
            "RESPELL"
        }
    };
    let mut buf: Vec<u8> = Vec::new();
    for p in 0..=n {
        if let Some(ex) = clamp_i32(exp10 + (n - p) as i64) {
            emit(&Case { int: &digits[..p], frac: &digits[p..], exp: ex, fam: lab(&mut first), fmts, expect: None });
        }
    }
    for z in [1usize, 2, 19, 20, 40, 400] {
        buf.clear();
        buf.resize(z, b'0');
        buf.extend_from_slice(digits);
        if let Some(ex) = clamp_i32(exp10 + (n + z) as i64) {
            emit(&Case { int: b"", frac: &buf, exp: ex, fam: lab(&mut first), fmts, expect: None });
        }
    }
    // appended fraction zeros on three splits: integer-only, after the first digit, fraction-only
    for p in [n, 1.min(n), 0] {
        for z in 1..=appended {
            buf.clear();
            buf.extend_from_slice(&digits[p..]);
            buf.resize(n - p + z, b'0');
            if let Some(ex) = clamp_i32(exp10 + (n - p) as i64) {
                emit(&Case { int: &digits[..p], frac: &buf, exp: ex, fam: lab(&mut first), fmts, expect: None });
            }
        }
    }
    // trailing integer zeros moved into the exponent
    for z in [1usize, 2, 19, 20, 40] {
        buf.clear();
        buf.extend_from_slice(digits);
        buf.resize(n + z, b'0');
        if let Some(ex) = clamp_i32(exp10 - z as i64) {
            emit(&Case { int: &buf, frac: b"", exp: ex, fam: lab(&mut first), fmts, expect: None });
        }
    }
}

pub fn respell_family(seed: u64, thorough: bool) -> Vec<Job> {
    let mut jobs: Vec<Job> = Vec::new();
    // (a) every digit string with <= 3 (4 thorough) digits, exponent windows
    let nd = if thorough { 4 } else { 3 };
    let mut exps: Vec<i64> = Vec::new();
    for c in [-345i64, -324, -308, -46, -22, 0, 15, 22, 38, 300] {
        for d in 0..6 {
            exps.push(c + d);
        }
    }
    for e in exps {
        jobs.push(Box::new(move |emit: &mut Emit| {
            for d in 1..10u64.pow(nd) {
                if d % 10 == 0 {
                    continue;
                }
                respell(emit, &dec_u128(d as u128), e, MBOTH, 40);
            }
        }));
    }
    // (b) SEAM significands at every 5th exponent (rotated by seed)
    let ws = std::sync::Arc::new(seam_significands());
    // every 5th exponent (rotated by seed) plus every exponent at which an algorithm switches
    let mut qs: Vec<i64> = Vec::new();
    let mut q = -365 + (seed % 5) as i64;
    while q <= 330 {
        qs.push(q);
        q += 5;
    }
    for c in [-343i64, -342, -325, -308, -66, -65, -46, -28, -27, -23, -22, -18, -17, -11, -10, -5, -4, 0, 10, 11, 17, 18, 22, 23, 24, 37, 38, 39, 55, 56, 308, 309] {
        qs.push(c);
    }
    qs.sort();
    qs.dedup();
    for q in qs {
        let ws = ws.clone();
        jobs.push(Box::new(move |emit: &mut Emit| {
            for &w in ws.iter() {
                let d = dec_u128(w);
                let (d, e) = strip0(&d, q);
                respell(emit, &d, e, MBOTH, 40);
                if d.len() == 19 {
                    // truncated bases
                    let mut t = d.clone();
                    t.extend_from_slice(b"00000000000000000001");
                    respell(emit, &t, e - 20, MBOTH, 3);
                }
            }
        }));
    }
    // (c) long bases: midpoints and exact values of the named pairs, both formats
    for f in [F64, F32] {
        let mask = fmt_mask(f);
        for a in named_pairs(f) {
            if a >= f.inf_bits() {
                continue;
            }
            jobs.push(Box::new(move |emit: &mut Emit| {
                let (k, j) = f.upper_boundary(a);
                let (hd, he) = expand(k, j);
                respell(emit, &hd, he, mask, 3);
                let mut v = hd.clone();
                v.extend_from_slice(&[b'0'; 30]);
                v.push(b'1');
                respell(emit, &v, he - 31, mask, 3);
                let (m, e) = f.decode(a);
                let (ad, ae) = expand(m, e);
                if !ad.is_empty() {
                    respell(emit, &ad, ae, mask, 3);
                }
            }));
        }
    }
    jobs
}

#[cfg(test)]
mod tests {
    use super::*;
    #[test]
    fn bump() {
        assert_eq!(bump_last(b"1299", true), b"1300".to_vec());
        assert_eq!(bump_last(b"999", true), b"1000".to_vec());
        assert_eq!(bump_last(b"1000", false), b"999".to_vec());
        assert_eq!(bump_last(b"15", false), b"14".to_vec());
    }
    #[test]
    fn families_are_deterministic_and_valid() {
        // every emitted case has digit bytes only and an integer part without leading zeros
        let mut n = 0u64;
        let mut check = |c: &Case| {
            n += 1;
            assert!(c.int.iter().chain(c.frac.iter()).all(|b| b.is_ascii_digit()));
            assert!(c.int.first() != Some(&b'0'), "leading zero in {:?}", std::str::from_utf8(c.int));
        };
        for j in seam(22, 23).iter().chain(short(2, -3, 3, "S").iter()).chain(boundary_deep(F32, 64, 0, 114, false).iter().take(3)).chain(extreme(false).iter().take(2)) {
            j(&mut check);
        }
        for j in respell_family(0, false).iter().take(3).chain(chains_floats(F64, 4, 0, 0, 512).iter().take(2)) {
            j(&mut check);
        }
        assert!(n > 10_000);
        assert_eq!(patterns(F64, 32, 7), patterns(F64, 32, 7));
        assert_ne!(patterns(F64, 32, 7), patterns(F64, 32, 8));
    }
}
