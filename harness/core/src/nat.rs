//! Reference natural numbers: little-endian `Vec<u64>`, schoolbook only.
//!
//! This is the trusted arithmetic of every oracle. It deliberately contains
//! nothing clever: multiply, add, subtract, shift, compare and division by a
//! machine word. It shares no code with the crate under verification.

use std::cmp::Ordering;
use std::sync::OnceLock;

#[derive(Clone, PartialEq, Eq, Debug, Hash, Default)]
pub struct Nat {
    /// Little-endian limbs, always normalised (no most-significant zero limb).
    pub l: Vec<u64>,
}

impl Nat {
    pub fn zero() -> Nat {
        Nat { l: Vec::new() }
    }
    pub fn from_u64(x: u64) -> Nat {
        if x == 0 {
            Nat::zero()
        } else {
            Nat { l: vec![x] }
        }
    }
    pub fn from_u128(x: u128) -> Nat {
        let mut n = Nat { l: vec![x as u64, (x >> 64) as u64] };
        n.norm();
        n
    }
    /// From little-endian limbs, not necessarily normalised.
    pub fn from_limbs(x: &[u64]) -> Nat {
        let mut n = Nat { l: x.to_vec() };
        n.norm();
        n
    }
    pub fn norm(&mut self) {
        while let Some(&0) = self.l.last() {
            self.l.pop();
        }
    }
    pub fn is_zero(&self) -> bool {
        self.l.is_empty()
    }
    pub fn bits(&self) -> u64 {
        match self.l.last() {
            None => 0,
            Some(&t) => 64 * self.l.len() as u64 - t.leading_zeros() as u64,
        }
    }
    pub fn to_u64(&self) -> Option<u64> {
        match self.l.len() {
            0 => Some(0),
            1 => Some(self.l[0]),
            _ => None,
        }
    }
    pub fn to_u128(&self) -> Option<u128> {
        match self.l.len() {
            0 => Some(0),
            1 => Some(self.l[0] as u128),
            2 => Some(self.l[0] as u128 | (self.l[1] as u128) << 64),
            _ => None,
        }
    }
    pub fn bit(&self, i: u64) -> bool {
        let limb = (i / 64) as usize;
        limb < self.l.len() && (self.l[limb] >> (i % 64)) & 1 == 1
    }
    /// Are any of the bits below position `i` set?
    pub fn any_below(&self, i: u64) -> bool {
        let limb = (i / 64) as usize;
        for (k, &v) in self.l.iter().enumerate() {
            if k < limb {
                if v != 0 {
                    return true;
                }
            } else if k == limb {
                let r = i % 64;
                if r != 0 && v & ((1u64 << r) - 1) != 0 {
                    return true;
                }
            }
        }
        false
    }

    pub fn mul_small(&mut self, y: u64) {
        if y == 0 {
            self.l.clear();
            return;
        }
        let mut carry: u128 = 0;
        for x in self.l.iter_mut() {
            let z = (*x as u128) * (y as u128) + carry;
            *x = z as u64;
            carry = z >> 64;
        }
        if carry != 0 {
            self.l.push(carry as u64);
        }
    }
    pub fn add_small(&mut self, y: u64) {
        let mut carry = y;
        for x in self.l.iter_mut() {
            if carry == 0 {
                return;
            }
            let (z, o) = x.overflowing_add(carry);
            *x = z;
            carry = o as u64;
        }
        if carry != 0 {
            self.l.push(carry);
        }
    }
    /// Divide in place by `d`, return the remainder.
    pub fn divrem_small(&mut self, d: u64) -> u64 {
        let mut rem: u128 = 0;
        for x in self.l.iter_mut().rev() {
            let cur = (rem << 64) | (*x as u128);
            *x = (cur / d as u128) as u64;
            rem = cur % d as u128;
        }
        self.norm();
        rem as u64
    }
    pub fn shl(&self, n: u64) -> Nat {
        if self.is_zero() {
            return Nat::zero();
        }
        let limbs = (n / 64) as usize;
        let r = (n % 64) as u32;
        let mut out = vec![0u64; limbs];
        if r == 0 {
            out.extend_from_slice(&self.l);
        } else {
            let mut prev = 0u64;
            for &x in &self.l {
                out.push((x << r) | (prev >> (64 - r)));
                prev = x;
            }
            let c = prev >> (64 - r);
            if c != 0 {
                out.push(c);
            }
        }
        Nat { l: out }
    }
    pub fn shr(&self, n: u64) -> Nat {
        let limbs = (n / 64) as usize;
        if limbs >= self.l.len() {
            return Nat::zero();
        }
        let r = (n % 64) as u32;
        let src = &self.l[limbs..];
        let mut out = Vec::with_capacity(src.len());
        for i in 0..src.len() {
            let lo = src[i] >> r;
            let hi = if r != 0 && i + 1 < src.len() { src[i + 1] << (64 - r) } else { 0 };
            out.push(lo | hi);
        }
        let mut n = Nat { l: out };
        n.norm();
        n
    }
    pub fn mul(&self, y: &Nat) -> Nat {
        if self.is_zero() || y.is_zero() {
            return Nat::zero();
        }
        let mut out = vec![0u64; self.l.len() + y.l.len()];
        for (i, &a) in self.l.iter().enumerate() {
            let mut carry: u128 = 0;
            for (j, &b) in y.l.iter().enumerate() {
                let z = (a as u128) * (b as u128) + out[i + j] as u128 + carry;
                out[i + j] = z as u64;
                carry = z >> 64;
            }
            let mut k = i + y.l.len();
            while carry != 0 {
                let z = out[k] as u128 + carry;
                out[k] = z as u64;
                carry = z >> 64;
                k += 1;
            }
        }
        let mut n = Nat { l: out };
        n.norm();
        n
    }
    pub fn add(&self, y: &Nat) -> Nat {
        let (a, b) = if self.l.len() >= y.l.len() { (self, y) } else { (y, self) };
        let mut out = a.l.clone();
        let mut carry = 0u64;
        for i in 0..out.len() {
            let yi = if i < b.l.len() { b.l[i] } else { 0 };
            let (z1, o1) = out[i].overflowing_add(yi);
            let (z2, o2) = z1.overflowing_add(carry);
            out[i] = z2;
            carry = (o1 as u64) + (o2 as u64);
        }
        if carry != 0 {
            out.push(carry);
        }
        Nat { l: out }
    }
    /// `self - y`, requires `self >= y`.
    pub fn sub(&self, y: &Nat) -> Nat {
        assert!(self.cmp(y) != Ordering::Less, "Nat::sub underflow");
        let mut out = self.l.clone();
        let mut borrow = 0u64;
        for i in 0..out.len() {
            let yi = if i < y.l.len() { y.l[i] } else { 0 };
            let (z1, o1) = out[i].overflowing_sub(yi);
            let (z2, o2) = z1.overflowing_sub(borrow);
            out[i] = z2;
            borrow = (o1 as u64) + (o2 as u64);
        }
        let mut n = Nat { l: out };
        n.norm();
        n
    }
    pub fn cmp(&self, y: &Nat) -> Ordering {
        if self.l.len() != y.l.len() {
            return self.l.len().cmp(&y.l.len());
        }
        for i in (0..self.l.len()).rev() {
            if self.l[i] != y.l[i] {
                return self.l[i].cmp(&y.l[i]);
            }
        }
        Ordering::Equal
    }
    /// Compare `self << a` with `y << b` without materialising more than needed.
    pub fn cmp_shifted(&self, a: u64, y: &Nat, b: u64) -> Ordering {
        if self.is_zero() || y.is_zero() {
            return (!self.is_zero() as u8).cmp(&(!y.is_zero() as u8));
        }
        let la = self.bits() + a;
        let lb = y.bits() + b;
        if la != lb {
            return la.cmp(&lb);
        }
        let m = a.min(b);
        let (a, b) = (a - m, b - m);
        if a == 0 && b == 0 {
            self.cmp(y)
        } else if a == 0 {
            self.cmp(&y.shl(b))
        } else {
            self.shl(a).cmp(y)
        }
    }

    /// Quotient and remainder by binary shift-subtract long division; the result is
    /// self-checked with multiplication (q*d + r == self, r < d), so it need not be trusted.
    pub fn divrem(&self, d: &Nat) -> (Nat, Nat) {
        assert!(!d.is_zero());
        let mut q = Nat::zero();
        let mut r = Nat::zero();
        let n = self.bits();
        q.l = vec![0u64; self.l.len()];
        for i in (0..n).rev() {
            r = r.shl(1);
            if self.bit(i) {
                r.add_small(1);
            }
            if r.cmp(d) != Ordering::Less {
                r = r.sub(d);
                q.l[(i / 64) as usize] |= 1u64 << (i % 64);
            }
        }
        q.norm();
        assert!(q.mul(d).add(&r) == *self && r.cmp(d) == Ordering::Less, "Nat::divrem self-check failed");
        (q, r)
    }

    /// Parse ASCII decimal digits (no validation beyond a debug assertion).
    pub fn from_dec(d: &[u8]) -> Nat {
        let mut n = Nat::zero();
        for chunk in d.chunks(19) {
            let mut v = 0u64;
            let mut p = 1u64;
            for &c in chunk {
                debug_assert!(c.is_ascii_digit());
                v = v * 10 + (c - b'0') as u64;
                p *= 10;
            }
            n.mul_small(p);
            n.add_small(v);
        }
        n
    }
    /// ASCII decimal digits, no leading zeros; zero gives the empty string.
    pub fn to_dec(&self) -> Vec<u8> {
        let mut n = self.clone();
        let mut chunks: Vec<u64> = Vec::new();
        while !n.is_zero() {
            chunks.push(n.divrem_small(10_000_000_000_000_000_000));
        }
        let mut out = Vec::with_capacity(chunks.len() * 19);
        for (i, c) in chunks.iter().rev().enumerate() {
            let s = if i == 0 { format!("{}", c) } else { format!("{:019}", c) };
            out.extend_from_slice(s.as_bytes());
        }
        out
    }
}

const POW5_CACHE: usize = 2600;
static POW5: OnceLock<Vec<Nat>> = OnceLock::new();

/// `5^n`, from a table built by repeated multiplication by 5.
pub fn pow5(n: u32) -> Nat {
    let t = POW5.get_or_init(|| {
        let mut v = Vec::with_capacity(POW5_CACHE + 1);
        let mut x = Nat::from_u64(1);
        for _ in 0..=POW5_CACHE {
            v.push(x.clone());
            x.mul_small(5);
        }
        v
    });
    if (n as usize) < t.len() {
        t[n as usize].clone()
    } else {
        let mut x = t[POW5_CACHE].clone();
        for _ in POW5_CACHE as u32..n {
            x.mul_small(5);
        }
        x
    }
}
/// Borrowed access to the cached table (panics beyond the cache).
pub fn pow5_ref(n: u32) -> &'static Nat {
    let _ = pow5(0);
    &POW5.get().unwrap()[n as usize]
}

/// `10^n`.
pub fn pow10(n: u32) -> Nat {
    pow5(n).shl(n as u64)
}

#[cfg(test)]
mod tests {
    use super::*;
    #[test]
    fn roundtrip_dec() {
        let s = b"123456789012345678901234567890123456789012345678901234567890";
        let n = Nat::from_dec(s);
        assert_eq!(n.to_dec(), s.to_vec());
        let mut m = n.clone();
        assert_eq!(m.divrem_small(10), 0);
        assert_eq!(m.to_dec(), s[..s.len() - 1].to_vec());
    }
    #[test]
    fn division() {
        let n = Nat::from_dec(b"123456789012345678901234567890123456789012345678901234567890");
        let d = Nat::from_dec(b"98765432109876543210987");
        let (q, r) = n.divrem(&d);
        assert_eq!(q.to_dec(), b"1249999988609375000142391093749550070".to_vec());
        assert_eq!(q.mul(&d).add(&r), n);
        let (q, r) = pow10(40).divrem(&pow5(40));
        assert_eq!(q, Nat::from_u64(1).shl(40));
        assert!(r.is_zero());
        assert_eq!(pow5(27).to_u64(), Some(7450580596923828125));
    }
    #[test]
    fn mul_add_sub() {
        let a = Nat::from_dec(b"340282366920938463463374607431768211455"); // 2^128-1
        let b = a.mul(&a);
        assert_eq!(b.to_dec(), b"115792089237316195423570985008687907852589419931798687112530834793049593217025".to_vec());
        let c = b.sub(&a).add(&a);
        assert_eq!(c, b);
        assert_eq!(a.shl(3).shr(3), a);
        assert_eq!(a.shl(64).shr(64), a);
        assert_eq!(a.shl(67).shr(67), a);
        assert_eq!(pow10(20).to_dec(), b"100000000000000000000".to_vec());
        assert_eq!(a.bits(), 128);
        assert_eq!(a.cmp_shifted(5, &a, 5), Ordering::Equal);
        assert_eq!(a.cmp_shifted(5, &a, 6), Ordering::Less);
        assert_eq!(Nat::from_u64(3).cmp_shifted(1, &Nat::from_u64(5), 0), Ordering::Greater);
    }
}
