//! Parallel job runner, statistics, violation records and JSON output.

use mlxcore::families::{Case, Emit, Job};
use std::collections::BTreeMap;
use std::sync::atomic::{AtomicUsize, Ordering};
use std::time::Instant;

pub fn jstr(s: &str) -> String {
    let mut o = String::with_capacity(s.len() + 2);
    o.push('"');
    for c in s.chars() {
        match c {
            '"' => o.push_str("\\\""),
            '\\' => o.push_str("\\\\"),
            '\n' => o.push_str("\\n"),
            '\t' => o.push_str("\\t"),
            c if (c as u32) < 0x20 => o.push_str(&format!("\\u{:04x}", c as u32)),
            c => o.push(c),
        }
    }
    o.push('"');
    o
}

/// Run-length encoding of a byte string as JSON `[[byte,count],...]`.
pub fn rle(b: &[u8]) -> String {
    let mut o = String::from("[");
    let mut i = 0;
    let mut first = true;
    while i < b.len() {
        let mut j = i;
        while j < b.len() && b[j] == b[i] {
            j += 1;
        }
        if !first {
            o.push(',');
        }
        first = false;
        o.push_str(&format!("[{},{}]", b[i], j - i));
        i = j;
    }
    o.push(']');
    o
}

/// Human-readable abbreviation of a digit string.
pub fn abbrev(b: &[u8]) -> String {
    let show = |x: &[u8]| x.iter().map(|&c| if (0x20..0x7f).contains(&c) { c as char } else { '?' }).collect::<String>();
    if b.len() <= 48 {
        show(b)
    } else {
        format!("{}..({} bytes)..{}", show(&b[..20]), b.len(), show(&b[b.len() - 12..]))
    }
}

#[derive(Clone, Debug)]
pub struct Violation {
    /// what was violated (short machine-readable kind)
    pub kind: String,
    pub fmt: &'static str,
    pub int: Vec<u8>,
    pub frac: Vec<u8>,
    pub exp: i32,
    pub fam: String,
    pub got: String,
    pub want: String,
    /// free-form JSON object members (already serialised, without braces), may be empty
    pub extra: String,
}

/// A violation of a property that is not about one `parse_float` input: carries its own
/// description and the argv that re-executes exactly this case (`mlx <argv...>`).
pub fn api_violation(kind: &str, fmt: &'static str, show: String, got: String, want: String, argv: Vec<String>) -> Violation {
    let argv_json = argv.iter().map(|a| jstr(a)).collect::<Vec<_>>().join(",");
    Violation {
        kind: kind.to_string(),
        fmt,
        int: Vec::new(),
        frac: Vec::new(),
        exp: 0,
        fam: String::new(),
        got,
        want,
        extra: format!("\"replay_argv\":[{}],\"show\":{}", argv_json, jstr(&show)),
    }
}

impl Violation {
    pub fn json(&self) -> String {
        let default_show = if self.extra.contains("\"show\":") {
            String::new()
        } else {
            format!(",\"show\":{}", jstr(&format!("{}.{}e{}", abbrev(&self.int), abbrev(&self.frac), self.exp)))
        };
        format!(
            "{{\"kind\":{},\"fmt\":{},\"int\":{},\"frac\":{},\"exp\":{},\"fam\":{},\"got\":{},\"want\":{}{}{}}}",
            jstr(&self.kind),
            jstr(self.fmt),
            rle(&self.int),
            rle(&self.frac),
            self.exp,
            jstr(&self.fam),
            jstr(&self.got),
            jstr(&self.want),
            default_show,
            if self.extra.is_empty() { String::new() } else { format!(",{}", self.extra) }
        )
    }
}

/// Per-thread accumulator; merged at the end.
#[derive(Default)]
pub struct Stats {
    pub cases: u64,
    pub calls: u64,
    pub nontrivial: u64,
    pub by_fam: BTreeMap<&'static str, u64>,
    pub by_path: BTreeMap<&'static str, u64>,
    pub counters: BTreeMap<&'static str, u64>,
    pub violations: Vec<Violation>,
    pub nviol: u64,
    pub machinery: Vec<String>,
    pub samples: Vec<String>,
    /// per-job digests (C05)
    pub digests: Vec<(usize, u64)>,
}

pub const MAX_VIOL_PER_THREAD: usize = 12;

impl Stats {
    pub fn bump(&mut self, k: &'static str) {
        *self.counters.entry(k).or_insert(0) += 1;
    }
    pub fn add(&mut self, k: &'static str, n: u64) {
        *self.counters.entry(k).or_insert(0) += n;
    }
    pub fn violation(&mut self, v: Violation) {
        self.nviol += 1;
        if self.violations.len() < MAX_VIOL_PER_THREAD {
            self.violations.push(v);
        }
    }
    pub fn machinery(&mut self, m: String) {
        if self.machinery.len() < 8 {
            self.machinery.push(m);
        }
    }
    pub fn sample(&mut self, s: String) {
        if self.samples.len() < 4 {
            self.samples.push(s);
        }
    }
    pub fn merge(&mut self, o: Stats) {
        self.cases += o.cases;
        self.calls += o.calls;
        self.nontrivial += o.nontrivial;
        for (k, v) in o.by_fam {
            *self.by_fam.entry(k).or_insert(0) += v;
        }
        for (k, v) in o.by_path {
            *self.by_path.entry(k).or_insert(0) += v;
        }
        for (k, v) in o.counters {
            *self.counters.entry(k).or_insert(0) += v;
        }
        self.nviol += o.nviol;
        self.violations.extend(o.violations);
        self.machinery.extend(o.machinery);
        self.samples.extend(o.samples);
        self.digests.extend(o.digests);
    }
    pub fn json(&self, wall: f64, extra: &str) -> String {
        let map = |m: &BTreeMap<&'static str, u64>| {
            let v: Vec<String> = m.iter().map(|(k, v)| format!("{}:{}", jstr(k), v)).collect();
            format!("{{{}}}", v.join(","))
        };
        let mut viol = self.violations.clone();
        viol.sort_by(|a, b| (a.int.len() + a.frac.len(), &a.int, &a.frac, a.exp).cmp(&(b.int.len() + b.frac.len(), &b.int, &b.frac, b.exp)));
        viol.truncate(40);
        let mut samples = self.samples.clone();
        samples.sort();
        samples.dedup();
        if samples.len() > 12 {
            let n = samples.len();
            let pick: Vec<String> = (0..12).map(|i| samples[i * (n - 1) / 11].clone()).collect();
            samples = pick;
        }
        let mut dig = self.digests.clone();
        dig.sort();
        format!(
            "{{\"cases\":{},\"calls\":{},\"nontrivial\":{},\"by_fam\":{},\"by_path\":{},\"counters\":{},\"nviol\":{},\"violations\":[{}],\"machinery\":[{}],\"samples\":[{}],\"digests\":[{}],\"wall_s\":{:.3}{}}}",
            self.cases,
            self.calls,
            self.nontrivial,
            map(&self.by_fam),
            map(&self.by_path),
            map(&self.counters),
            self.nviol,
            viol.iter().map(|v| v.json()).collect::<Vec<_>>().join(","),
            self.machinery.iter().map(|m| jstr(m)).collect::<Vec<_>>().join(","),
            samples.iter().map(|m| jstr(m)).collect::<Vec<_>>().join(","),
            dig.iter().map(|(j, d)| format!("[{},\"{:016x}\"]", j, d)).collect::<Vec<_>>().join(","),
            wall,
            if extra.is_empty() { String::new() } else { format!(",{}", extra) }
        )
    }
}

pub fn threads() -> usize {
    std::env::var("MLX_THREADS").ok().and_then(|s| s.parse().ok()).unwrap_or_else(|| {
        std::thread::available_parallelism().map(|n| n.get()).unwrap_or(8)
    })
}

/// Run all jobs on a thread pool. `per_case(stats, job_index, case)` is called for each case;
/// `job_done(stats, job_index)` after each job.
static RUN_INDEX: AtomicUsize = AtomicUsize::new(0);

/// For the API-level drivers (C12, C13): announce the operation / history about to run when
/// `MLX_TRACE=cases`, so that the driver can name the one that kills the engine.
pub fn trace_op(kind: &str, what: &str) {
    static ON: std::sync::OnceLock<bool> = std::sync::OnceLock::new();
    if *ON.get_or_init(|| std::env::var("MLX_TRACE").map(|v| v == "cases").unwrap_or(false)) {
        eprintln!("{} {}", kind, what);
    }
}

/// Crash localisation (driven by bin/check when an engine dies on a signal):
///   MLX_TRACE=jobs   print `RUN r JOB i` to stderr before each job
///   MLX_TRACE=cases  additionally print `CASE <int-rle> <frac-rle> <exp>` before each case
///   MLX_ONLY=r:i     execute only job i of the r-th run_jobs call
pub fn run_jobs<C, D>(jobs: &[Job], per_case: C, job_done: D) -> Stats
where
    C: Fn(&mut Stats, usize, &Case) + Sync,
    D: Fn(&mut Stats, usize) + Sync,
{
    let run_index = RUN_INDEX.fetch_add(1, Ordering::SeqCst);
    let trace = std::env::var("MLX_TRACE").unwrap_or_default();
    let (trace_jobs, trace_cases) = (trace == "jobs" || trace == "cases", trace == "cases");
    let only: Option<(usize, usize)> = std::env::var("MLX_ONLY").ok().and_then(|s| {
        let (a, b) = s.split_once(':')?;
        Some((a.parse().ok()?, b.parse().ok()?))
    });
    let next = AtomicUsize::new(0);
    // MLX_SHARD=i/n: this process only executes jobs with index % n == i (slow monitors shard across processes)
    let shard: Option<(usize, usize)> = std::env::var("MLX_SHARD").ok().and_then(|s| {
        let (a, b) = s.split_once('/')?;
        Some((a.parse().ok()?, b.parse().ok()?))
    });
    let nthreads = threads().min(jobs.len().max(1));
    let mut total = Stats::default();
    let results: Vec<Stats> = std::thread::scope(|s| {
        let mut hs = Vec::new();
        for _ in 0..nthreads {
            hs.push(
                std::thread::Builder::new()
                    .stack_size(64 << 20)
                    .spawn_scoped(s, || {
                        let mut st = Stats::default();
                        loop {
                            let i = next.fetch_add(1, Ordering::Relaxed);
                            if i >= jobs.len() {
                                break;
                            }
                            if let Some((x, n)) = shard {
                                if i % n != x {
                                    continue;
                                }
                            }
                            if let Some((r, j)) = only {
                                if r != run_index || j != i {
                                    continue;
                                }
                            }
                            if trace_jobs {
                                eprintln!("RUN {} JOB {}", run_index, i);
                            }
                            {
                                let st_ref = &mut st;
                                let mut emit = |c: &Case| {
                                    if trace_cases {
                                        eprintln!("CASE {} {} {}", crate::rle_str(c.int), crate::rle_str(c.frac), c.exp);
                                    }
                                    per_case(st_ref, i, c)
                                };
                                let e: &mut Emit = &mut emit;
                                (jobs[i])(e);
                            }
                            job_done(&mut st, i);
                        }
                        crate::value::flush_distinct_final();
                        st
                    })
                    .unwrap(),
            );
        }
        hs.into_iter().map(|h| h.join().expect("worker thread panicked (harness bug)")).collect()
    });
    for r in results {
        total.merge(r);
    }
    total
}

pub struct Timer(Instant);
impl Timer {
    pub fn new() -> Timer {
        Timer(Instant::now())
    }
    pub fn secs(&self) -> f64 {
        self.0.elapsed().as_secs_f64()
    }
}

pub fn case_sample(c: &Case) -> String {
    format!("{}: {}.{}e{}", c.fam, abbrev(c.int), abbrev(c.frac), c.exp)
}
