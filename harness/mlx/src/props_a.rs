//! Properties decided on `parse_float` itself: C03, C04, C05, C06, C07, C09, C10, C15.

use crate::real::{self, RF};
use crate::run::{self, case_sample, run_jobs, Stats, Timer, Violation};
use crate::value::{self, case_hash, value_case, ValueOpts};
use crate::{hard_jobs, value_families, Args};
use mlxcore::exact::{check, expected, DecN, Fmt, F32, F64};
use mlxcore::families::{self as fam, Case, Job, M32, M64, MBOTH};
use std::cell::Cell;
use std::cmp::Ordering;

type Fams = Vec<(&'static str, Vec<Job>)>;

fn report(name: &str, jobs: usize, st: &Stats, t: &Timer) -> String {
    format!(
        "{{\"family\":{},\"jobs\":{},\"cases\":{},\"calls\":{},\"wall_s\":{:.2}}}",
        run::jstr(name),
        jobs,
        st.cases,
        st.calls,
        t.secs()
    )
}

fn mk_viol(c: &Case, f: Fmt, kind: &str, got: String, want: String) -> Violation {
    Violation {
        kind: kind.to_string(),
        fmt: f.name,
        int: c.int.to_vec(),
        frac: c.frac.to_vec(),
        exp: c.exp,
        fam: c.fam.to_string(),
        got,
        want,
        extra: String::new(),
    }
}

fn sig_digits(c: &Case) -> usize {
    let mut n = 0;
    let mut seen = false;
    for &b in c.int.iter().chain(c.frac.iter()) {
        if b != b'0' {
            seen = true;
        }
        if seen {
            n += 1;
        }
    }
    n
}

/// Generic loop: run families through the value sink with a case filter.
fn run_filtered<P>(fams: Fams, fmts: u8, lean_prefix: &str, pred: P) -> (Stats, String)
where
    P: Fn(&Case) -> bool + Sync,
{
    let mut total = Stats::default();
    let mut rep = Vec::new();
    for (name, jobs) in fams {
        let opts = ValueOpts { fmts, core_cross: true, lean: !lean_prefix.is_empty() && name.starts_with(lean_prefix) };
        let t = Timer::new();
        let st = run_jobs(
            &jobs,
            |st, j, c| {
                if pred(c) {
                    value_case(st, j, c, &opts)
                }
            },
            |_s, _j| value::flush_distinct(),
        );
        rep.push(report(name, jobs.len(), &st, &t));
        total.merge(st);
    }
    (total, format!("\"families\":[{}]", rep.join(",")))
}

// ---------------------------------------------------------------------------
// C03 round trip
// ---------------------------------------------------------------------------

/// Every finite value of a binade chunk in three renderings (shortest, 9/17 digits, exact).
fn all_values_binade(f: Fmt, be: u64, chunks: u64, stride: u64, offset: u64) -> Vec<Job> {
    let n = 1u64 << f.mant_bits();
    let mut jobs: Vec<Job> = Vec::new();
    for c in 0..chunks {
        jobs.push(Box::new(move |emit: &mut fam::Emit| {
            let mask = if f == F32 { M32 } else { M64 };
            let lo = n * c / chunks;
            let hi = n * (c + 1) / chunks;
            for fr in (lo..hi).filter(|x| x % stride == offset % stride) {
                let a = (be << f.mant_bits()) | fr;
                if a >= f.inf_bits() {
                    continue;
                }
                let (m, e) = f.decode(a);
                let (ad, ae) = mlxcore::exact::expand(m, e);
                // scientific and positional notation (what `{:e}` and `{}` print)
                fam::emit_placements(emit, &ad, ae, if ad.len() > 1 { fam::PL_SCI } else { fam::PL_INT }, "RT-exact", mask, Some(a));
                let (sd, se) = fam::render_sci(f, a, None);
                fam::emit_placements(emit, &sd, se, (if sd.len() > 1 { fam::PL_SCI } else { fam::PL_INT }) | fam::PL_POS, "RT-shortest", mask, Some(a));
                let (sd, se) = fam::render_sci(f, a, Some(if f == F32 { 8 } else { 16 }));
                fam::emit_placements(emit, &sd, se, (if sd.len() > 1 { fam::PL_SCI } else { fam::PL_INT }) | fam::PL_POS, "RT-17", mask, Some(a));
            }
        }));
    }
    jobs
}

/// The three renderings of one float in scientific and positional notation.
fn emit_rt(emit: &mut fam::Emit, f: Fmt, a: u64) {
    let mask = if f == F32 { M32 } else { M64 };
    let (m, e) = f.decode(a);
    let (ad, ae) = mlxcore::exact::expand(m, e);
    fam::emit_placements(emit, &ad, ae, if ad.len() > 1 { fam::PL_SCI } else { fam::PL_INT }, "RT-exact", mask, Some(a));
    let (sd, se) = fam::render_sci(f, a, None);
    fam::emit_placements(emit, &sd, se, (if sd.len() > 1 { fam::PL_SCI } else { fam::PL_INT }) | fam::PL_POS, "RT-shortest", mask, Some(a));
    let (sd, se) = fam::render_sci(f, a, Some(if f == F32 { 8 } else { 16 }));
    fam::emit_placements(emit, &sd, se, (if sd.len() > 1 { fam::PL_SCI } else { fam::PL_INT }) | fam::PL_POS, "RT-17", mask, Some(a));
}

/// Floats that have a short decimal (15..17 / 7..9 digits) extremely close to one of their rounding boundaries:
/// the value each short HARD case rounds to (by the exact oracle) and its two neighbours. Their shortest and
/// fixed-precision renderings are the round-trip inputs on which the moderate stage has the least margin.
fn rt_hard_family(path: &str) -> Vec<Job> {
    let all: Vec<(u8, i32, u64)> = crate::read_hard(path).into_iter().filter(|&(m, _q, w)| if m == M64 { w < 100_000_000_000_000_000 } else { w < 1_000_000_000 }).collect();
    let mut jobs: Vec<Job> = Vec::new();
    for chunk in all.chunks(128) {
        let chunk = chunk.to_vec();
        jobs.push(Box::new(move |emit: &mut fam::Emit| {
            for &(m, q, w) in &chunk {
                let f = if m == M64 { F64 } else { F32 };
                let x = expected(&DecN::from_u64(w, q as i64), f);
                for a in [x.saturating_sub(1), x, x + 1] {
                    if a > 0 && a < f.inf_bits() {
                        emit_rt(emit, f, a);
                    }
                }
            }
        }));
    }
    jobs
}

pub fn c03(a: &Args) -> (Stats, String) {
    let mut fams: Fams = Vec::new();
    if let Some(h) = &a.hard {
        fams.push(("RT-HARD: floats with a 15..17 (7..9) digit decimal next to a rounding boundary, and their neighbours, x 3 renderings", rt_hard_family(h)));
    }
    let extra = if a.thorough { 4096 } else { 64 };
    fams.push(("RT f64: every binade x patterns x {exact, shortest, 17 digits} in scientific, integer and positional notation", fam::boundary_light(F64, extra, a.seed, 1, fam::PL_SCI | fam::PL_INT | fam::PL_POS)));
    fams.push(("RT f32: every binade x patterns x {exact, shortest, 9 digits} in scientific, integer and positional notation", fam::boundary_light(F32, extra, a.seed, 1, fam::PL_SCI | fam::PL_INT | fam::PL_POS)));
    let mut jobs: Vec<Job> = Vec::new();
    if a.thorough {
        for be in 0..F32.binades() {
            jobs.extend(all_values_binade(F32, be, 16, 1, 0));
        }
        fams.push(("F32-ALL-VALUES every finite non-negative f32 x 3 renderings", jobs));
    } else {
        let mut s = a.seed ^ 0xC03;
        let mut v = vec![0u64, 254, 1 + fam::splitmix(&mut s) % 253, 1 + fam::splitmix(&mut s) % 253];
        v.sort();
        v.dedup();
        for be in v {
            jobs.extend(all_values_binade(F32, be, 64, 1, 0));
        }
        fams.push(("F32-ALL-VALUES four complete binades x 3 renderings", jobs));
    }
    // f64: complete low-20-bit sweeps in four binades (subnormal, first normal, 1.0, top)
    let mut jobs: Vec<Job> = Vec::new();
    for be in [0u64, 1, 1023, 2046] {
        for c in 0..16u64 {
            jobs.push(Box::new(move |emit: &mut fam::Emit| {
                let n = 1u64 << 20;
                for fr in n * c / 16..n * (c + 1) / 16 {
                    let a = (be << 52) | fr;
                    let (m, e) = F64.decode(a);
                    let (ad, ae) = mlxcore::exact::expand(m, e);
                    fam::emit_placements(emit, &ad, ae, if ad.len() > 1 { fam::PL_SCI } else { fam::PL_INT }, "RT-exact", M64, Some(a));
                    let (sd, se) = fam::render_sci(F64, a, None);
                    fam::emit_placements(emit, &sd, se, if sd.len() > 1 { fam::PL_SCI } else { fam::PL_INT }, "RT-shortest", M64, Some(a));
                    let (sd, se) = fam::render_sci(F64, a, Some(16));
                    fam::emit_placements(emit, &sd, se, if sd.len() > 1 { fam::PL_SCI } else { fam::PL_INT }, "RT-17", M64, Some(a));
                }
            }));
        }
    }
    if a.thorough {
        fams.push(("F64 low-20-bit sweeps in binades 0,1,1023,2046 x 3 renderings", jobs));
    }
    run_filtered(fams, MBOTH, "F", |c| {
        matches!(c.fam, "BND-exact" | "BND-shortest" | "BND-17" | "RT-exact" | "RT-shortest" | "RT-17")
    })
}

// ---------------------------------------------------------------------------
// C04 valid input never panics (release and dbg profile)
// ---------------------------------------------------------------------------
fn nopanic_case(st: &mut Stats, _job: usize, c: &Case) {
    st.cases += 1;
    *st.by_fam.entry(c.fam).or_insert(0) += 1;
    if st.samples.len() < 4 && st.cases % 4099 == 1 {
        st.sample(case_sample(c));
    }
    fn one<F: RF>(st: &mut Stats, c: &Case) {
        st.calls += 1;
        if c.int.len() + c.frac.len() > 19 {
            st.nontrivial += 1;
            value::note_nontrivial(c);
        }
        match real::parse::<F>(c.int, c.frac, c.exp) {
            Err(m) => st.violation(mk_viol(c, F::FMT, "panic", format!("panic: {}", m), "a value".into())),
            Ok(b) if b > F::FMT.inf_bits() => {
                st.violation(mk_viol(c, F::FMT, "nan-or-negative", format!("{:#x}", b), "a non-negative float".into()))
            },
            Ok(_) => {},
        }
    }
    if c.fmts & M64 != 0 {
        one::<f64>(st, c);
    }
    if c.fmts & M32 != 0 {
        one::<f32>(st, c);
    }
}

pub fn c04(a: &Args) -> (Stats, String) {
    let mut fams = value_families(a, MBOTH);
    fams.push(("LONG 10^4..10^5 (10^6 thorough) digits x shapes x exponents", fam::long_family(a.thorough)));
    let mut total = Stats::default();
    let mut rep = Vec::new();
    for (name, jobs) in fams {
        let t = Timer::new();
        let st = run_jobs(&jobs, nopanic_case, |_s, _j| value::flush_distinct());
        rep.push(report(name, jobs.len(), &st, &t));
        total.merge(st);
    }
    (total, format!("\"debug_assertions\":{},\"families\":[{}]", cfg!(debug_assertions), rep.join(",")))
}

// ---------------------------------------------------------------------------
// C05 configurations agree: per-job digests of (case, f32 bits, f64 bits)
// ---------------------------------------------------------------------------
thread_local! { static DIGEST: Cell<u64> = Cell::new(0); }

fn bits_or_panic<F: RF>(c: &Case) -> u64 {
    match real::parse::<F>(c.int, c.frac, c.exp) {
        Ok(b) => b,
        Err(_) => 0xDEAD_0000_0000_0000,
    }
}

pub fn c05(a: &Args) -> (Stats, String) {
    let mut fams = value_families(a, MBOTH);
    fams.push(("RESPELL", fam::respell_family(a.seed, false)));
    // flatten: global job numbering in a fixed order
    let mut all: Vec<Job> = Vec::new();
    let mut names: Vec<String> = Vec::new();
    for (name, jobs) in fams {
        names.push(format!("{{\"family\":{},\"first_job\":{},\"jobs\":{}}}", run::jstr(name), all.len(), jobs.len()));
        all.extend(jobs);
    }
    // dump mode: print every case of one job with its bits
    if let Some(pos) = a.rest.iter().position(|x| x == "--dump-job") {
        let j: usize = a.rest[pos + 1].parse().expect("job index");
        let mut emit = |c: &Case| {
            println!(
                "CASE {} {} {} {:x} {:x}",
                crate::rle_str(c.int),
                crate::rle_str(c.frac),
                c.exp,
                if c.fmts & M32 != 0 { bits_or_panic::<f32>(c) } else { 0 },
                if c.fmts & M64 != 0 { bits_or_panic::<f64>(c) } else { 0 }
            );
        };
        (all[j])(&mut emit);
        let st = Stats::default();
        return (st, "\"dump\":true".to_string());
    }
    let st = run_jobs(
        &all,
        |st, _j, c| {
            st.cases += 1;
            *st.by_fam.entry(c.fam).or_insert(0) += 1;
            if st.samples.len() < 4 && st.cases % 8191 == 1 {
                st.sample(case_sample(c));
            }
            if c.int.len() + c.frac.len() > 15 || c.exp.abs() > 22 {
                st.nontrivial += 1;
                value::note_nontrivial(c);
            }
            let mut h = DIGEST.with(|d| d.get());
            let mut mix = |x: u64| {
                h = (h ^ x).wrapping_mul(0x9E3779B97F4A7C15);
                h ^= h >> 29;
            };
            mix(case_hash(c));
            if c.fmts & M32 != 0 {
                st.calls += 1;
                mix(bits_or_panic::<f32>(c));
            }
            if c.fmts & M64 != 0 {
                st.calls += 1;
                mix(bits_or_panic::<f64>(c));
            }
            DIGEST.with(|d| d.set(h));
        },
        |st, j| {
            let h = DIGEST.with(|d| d.replace(0));
            st.digests.push((j, h));
        },
    );
    (st, format!("\"families\":[{}]", names.join(",")))
}

// ---------------------------------------------------------------------------
// C06 long digit strings
// ---------------------------------------------------------------------------
pub fn c06(a: &Args) -> (Stats, String) {
    let mut fams: Fams = Vec::new();
    for (f, maxd, stride) in [(F64, 769usize, 32u64), (F32, 114, 8)] {
        let stride = if a.thorough { 1 } else { stride };
        fams.push((
            if f == F64 { "BOUNDARY-DEEP(f64): deciding digit at every cut-off / chunk offset" } else { "BOUNDARY-DEEP(f32)" },
            fam::boundary_deep(f, stride, a.seed, maxd, a.thorough),
        ));
        fams.push((if f == F64 { "BOUNDARY-LIGHT(f64) far digits" } else { "BOUNDARY-LIGHT(f32) far digits" }, fam::boundary_light(f, 0, a.seed, if a.thorough { 1 } else { 4 }, fam::PL_SCI | fam::PL_FRACZ)));
        fams.push((if f == F64 { "THRESHOLDS(f64)" } else { "THRESHOLDS(f32)" }, fam::threshold_family(f, a.thorough)));
    }
    fams.push(("SEAM truncated spellings", fam::seam(-365, 330)));
    fams.push(("EXTREME long shapes", fam::extreme(a.thorough)));
    if let Some(p) = &a.hard {
        fams.push(("HARD(q) truncated spellings", hard_jobs(p, MBOTH)));
        fams.push(("GAPS + LIMB-EDGE + RIPPLE", crate::gap_jobs(p)));
    }
    let (mut st, extra) = run_filtered(fams, MBOTH, "", |c| sig_digits(c) >= 20);
    // S0 conformance through the hook (machinery-level evidence, never a verdict)
    let s0 = s0_conformance(a);
    st.add("s0_contract_checked", s0.0);
    st.add("s0_contract_breaches", s0.1);
    (st, extra)
}

/// `Number{w,q,t}` of the real digit accumulator against its contract:
/// w*10^q <= value < (w+1)*10^q; !t implies equality; t implies w has 19 digits.
fn s0_conformance(a: &Args) -> (u64, u64) {
    let jobs = fam::boundary_deep(F64, 64, a.seed, 769, false);
    let st = run_jobs(
        &jobs,
        |st, _j, c| {
            let (_p, num) = real::classify::<f64>(c.int, c.frac, c.exp);
            let Some(num) = num else { return };
            if (num.exponent as i64).abs() > 100_000 {
                return;
            }
            st.bump("checked");
            let v = DecN::from_parts(c.int, c.frac, c.exp);
            let lo = DecN::from_u64(num.mantissa, num.exponent as i64);
            let ok = if !num.many_digits {
                v.cmp_dec(&lo) == Ordering::Equal
            } else {
                let hi = if num.mantissa == u64::MAX { return } else { DecN::from_u64(num.mantissa + 1, num.exponent as i64) };
                v.cmp_dec(&lo) != Ordering::Less && v.cmp_dec(&hi) == Ordering::Less && num.mantissa >= 1_000_000_000_000_000_000
            };
            if !ok {
                st.bump("breach");
            }
        },
        |_s, _j| {},
    );
    (*st.counters.get("checked").unwrap_or(&0), *st.counters.get("breach").unwrap_or(&0))
}

// ---------------------------------------------------------------------------
// C07 ends of the range
// ---------------------------------------------------------------------------
pub fn c07(a: &Args) -> (Stats, String) {
    let mut fams: Fams = Vec::new();
    fams.push(("THRESHOLDS(f64): every prefix length x compensation", fam::threshold_family(F64, a.thorough)));
    fams.push(("THRESHOLDS(f32)", fam::threshold_family(F32, a.thorough)));
    fams.push(("EXTREME: exponent classes x shapes", fam::extreme(a.thorough)));
    let n = if a.thorough { 4 } else { 3 };
    let mut s = fam::short(n, -345, -290, "SHORT-lo");
    s.extend(fam::short(n, 290, 312, "SHORT-hi"));
    s.extend(fam::short(n, -50, -34, "SHORT-lo32"));
    s.extend(fam::short(n, 34, 42, "SHORT-hi32"));
    fams.push(("SHORT near both ends of both formats", s));
    let mut s = fam::seam(-365, -270);
    s.extend(fam::seam(260, 330));
    s.extend(fam::seam(-70, -25));
    s.extend(fam::seam(15, 45));
    fams.push(("SEAM near both ends", s));
    if let Some(p) = &a.hard {
        // round 9: the number-theoretic cases (closest approaches, second-multiplication and low-word cases, structural
        // digit strings) whose value lies in this property's ranges - selected by the scope filter below
        fams.push(("HARD(q) in the end ranges", crate::hard_jobs(p, MBOTH)));
        fams.push(("GAPS + LIMB-EDGE + RIPPLE + POW2-POS in the end ranges", crate::gap_jobs(p)));
    }
    let extra = if a.thorough { 1024 } else { 32 };
    let b64: Vec<u64> = (0..6).chain(2040..2047).collect();
    let b32: Vec<u64> = (0..6).chain(248..255).collect();
    fams.push(("BOUNDARY-LIGHT(f64) subnormal..first normals and top binades", fam::boundary_light_binades(F64, &b64, extra, a.seed, fam::PL_ALL)));
    fams.push(("BOUNDARY-LIGHT(f32) subnormal..first normals and top binades", fam::boundary_light_binades(F32, &b32, extra, a.seed, fam::PL_ALL)));
    // subnormal leading-bit positions are the 2^k patterns of binade 0 (already in the pattern set)
    let stride = if a.thorough { 1 } else { 16 };
    let mut jobs = fam::boundary_full_binade(F32, 0, 64, stride, a.seed);
    jobs.extend(fam::boundary_full_binade(F32, 254, 64, stride, a.seed));
    fams.push(("F32-MIDPOINTS subnormal and top binade", jobs));
    let in_scope = |c: &Case| -> bool {
        if (c.exp as i64).abs() > 400 {
            return true;
        }
        let v = DecN::from_parts(c.int, c.frac, c.exp);
        if v.is_zero() {
            return true;
        }
        let mut hit = false;
        if c.fmts & M64 != 0 {
            hit |= v.cmp_bin(1, -1021) == Ordering::Less || v.cmp_bin(1, 1023) != Ordering::Less;
        }
        if c.fmts & M32 != 0 {
            hit |= v.cmp_bin(1, -125) == Ordering::Less || v.cmp_bin(1, 127) != Ordering::Less;
        }
        hit
    };
    run_filtered(fams, MBOTH, "F32-MIDPOINTS", in_scope)
}

// ---------------------------------------------------------------------------
// C09 monotonic / C10 re-spellings: group sinks
// ---------------------------------------------------------------------------
struct Prev {
    job: usize,
    v: Option<DecN>,
    b32: Option<u64>,
    b64: Option<u64>,
    show: String,
}
thread_local! { static PREV: std::cell::RefCell<Prev> = std::cell::RefCell::new(Prev { job: usize::MAX, v: None, b32: None, b64: None, show: String::new() }); }

fn group_case(st: &mut Stats, job: usize, c: &Case, monotone: bool) {
    st.cases += 1;
    *st.by_fam.entry(c.fam).or_insert(0) += 1;
    if st.samples.len() < 4 && st.cases % 5003 == 1 {
        st.sample(case_sample(c));
    }
    let start = c.fam.ends_with('^');
    let b32 = if c.fmts & M32 != 0 {
        st.calls += 1;
        Some(bits_or_panic::<f32>(c))
    } else {
        None
    };
    let b64 = if c.fmts & M64 != 0 {
        st.calls += 1;
        Some(bits_or_panic::<f64>(c))
    } else {
        None
    };
    if sig_digits(c) > 15 || c.exp.abs() > 22 {
        st.nontrivial += 1;
        value::note_nontrivial(c);
    }
    for (b, f) in [(b32, F32), (b64, F64)] {
        if let Some(b) = b {
            if b > f.inf_bits() {
                st.violation(mk_viol(c, f, "panic-or-nan", format!("{:#x}", b), "a non-negative float".into()));
            }
        }
    }
    if monotone {
        // x <= y and y <= x for two spellings of one value: order preservation demands identical results. Every element of
        // more than 19 digits is therefore parsed again with the decimal point after 1, 19 and 38 digits, at its positional
        // place and at the end (valid spellings only: no leading integer zero, no trailing fraction zero).
        equal_value_placements(st, c, b32, b64);
    }
    PREV.with(|p| {
        let mut p = p.borrow_mut();
        let v = DecN::from_parts(c.int, c.frac, c.exp);
        if !start && p.job == job {
            // generator sanity (machinery): the order / equality the family claims must hold exactly
            if let Some(pv) = &p.v {
                let ord = pv.cmp_dec(&v);
                let sane = if monotone { ord != Ordering::Greater } else { ord == Ordering::Equal };
                if !sane {
                    st.machinery(format!("generator bug: group order/equality does not hold exactly: {} then {}", p.show, case_sample(c)));
                }
            }
            st.bump("pairs_compared");
            for (prev, cur, f) in [(p.b32, b32, F32), (p.b64, b64, F64)] {
                if let (Some(pb), Some(cb)) = (prev, cur) {
                    if pb > f.inf_bits() || cb > f.inf_bits() {
                        continue;
                    }
                    let bad = if monotone { pb > cb } else { pb != cb };
                    if bad {
                        let want = expected(&v, f);
                        let kind = if monotone { "order-inverted" } else { "spellings-differ" };
                        let mut vio = mk_viol(c, f, kind, format!("{:#x} (previous element {} gave {:#x})", cb, p.show, pb), format!("{:#x}", want));
                        // make the replay point at whichever element is wrong per the exact oracle
                        if check(&v, f, cb) {
                            vio.extra = format!("\"note\":{}", run::jstr("this element is correctly rounded; the previous element of the group is the wrong one"));
                        }
                        st.violation(vio);
                    }
                }
            }
        }
        p.job = job;
        p.v = Some(v);
        p.b32 = b32;
        p.b64 = b64;
        p.show = case_sample(c);
    });
}

fn equal_value_placements(st: &mut Stats, c: &Case, b32: Option<u64>, b64: Option<u64>) {
    let n = c.int.len() + c.frac.len();
    if n <= 19 || (c.int.is_empty() && c.frac.first() == Some(&b'0')) {
        return;
    }
    // every element of the structural chains, every third long element of the others (cost)
    if !c.fam.starts_with("CHAIN-STR") && st.cases % 3 != 0 {
        return;
    }
    let mut joined: Vec<u8> = Vec::with_capacity(n);
    joined.extend_from_slice(c.int);
    joined.extend_from_slice(c.frac);
    let base = c.exp as i64 - c.frac.len() as i64; // value = joined * 10^base
    let positional = n as i64 + base; // split position at which the exponent argument is 0
    let mut ps: Vec<usize> = vec![19, 38, if st.cases % 2 == 0 { 1 } else { n }];
    if positional > 0 && (positional as usize) < n {
        ps.push(positional as usize);
    }
    ps.sort();
    ps.dedup();
    for p in ps {
        if p > n || p == c.int.len() || (p < n && joined[n - 1] == b'0') {
            continue;
        }
        let ex = base + (n - p) as i64;
        if ex < i32::MIN as i64 || ex > i32::MAX as i64 {
            continue;
        }
        let alt = Case { int: &joined[..p], frac: &joined[p..], exp: ex as i32, fam: c.fam, fmts: c.fmts, expect: None };
        st.bump("equal_value_placements");
        for (main, f) in [(b32, F32), (b64, F64)] {
            let Some(mb) = main else { continue };
            st.calls += 1;
            let ab = if f == F32 { bits_or_panic::<f32>(&alt) } else { bits_or_panic::<f64>(&alt) };
            if ab != mb {
                let v = DecN::from_parts(alt.int, alt.frac, alt.exp);
                let want = expected(&v, f);
                let mut vio = mk_viol(&alt, f, "order-inverted", format!("{:#x} (the same value written {} gave {:#x})", ab, case_sample(c), mb), format!("{:#x}", want));
                if check(&v, f, ab) {
                    vio.extra = format!("\"note\":{}", run::jstr("this spelling is correctly rounded; the other spelling of the same value is the wrong one"));
                }
                st.violation(vio);
            }
        }
    }
}

pub fn c09(a: &Args) -> (Stats, String) {
    let mut fams: Fams = Vec::new();
    fams.push(("CHAIN(1) sorted SEAM significands with in-between truncated elements, every q in [-365,330]", fam::chains_w(-365, 330)));
    fams.push(("CHAIN(2) same digits, consecutive exponents", fam::chains_q(-365, 330)));
    let (extra, stride) = if a.thorough { (512, 1) } else { (16, 1) };
    fams.push(("CHAIN(3) f64 runs of 4 consecutive floats: exact, below-mid, mid, above-mid", fam::chains_floats(F64, 4, extra, a.seed, stride)));
    fams.push(("CHAIN(3) f32 runs", fam::chains_floats(F32, 4, extra, a.seed, 1)));
    fams.push(("CHAIN(3b) f64 rich runs: renderings and 15..20-digit truncations of every midpoint, sorted exactly", fam::chains_floats_rich(F64, 4, 1)));
    fams.push(("CHAIN(3b) f32 rich runs", fam::chains_floats_rich(F32, 4, 1)));
    fams.push(("CHAIN(4) far-digit chains d=0..9 (f64)", fam::chains_far(F64)));
    fams.push(("CHAIN(4) far-digit chains d=0..9 (f32)", fam::chains_far(F32)));
    if let Some(p) = &a.hard {
        fams.push(("CHAIN(5) through the structural digit strings (GAPS, LIMB-EDGE, RIPPLE, POW2-POS): D-1 < D-1.5 < D = D < D+far < D+1", crate::str64_chain_jobs(p)));
    }
    run_groups(fams, true)
}

pub fn c10(a: &Args) -> (Stats, String) {
    let mut fams: Fams = vec![("RESPELL: every split, leading zeros, 0..40 appended zeros of short, SEAM and long bases", fam::respell_family(a.seed, a.thorough))];
    if let Some(p) = &a.hard {
        fams.push(("RESPELL of the structural digit strings (GAPS, LIMB-EDGE, RIPPLE, POW2-POS) and their upper neighbours: every split, appended zeros", crate::str64_respell_jobs(p)));
    }
    run_groups(fams, false)
}

fn run_groups(fams: Fams, monotone: bool) -> (Stats, String) {
    let mut total = Stats::default();
    let mut rep = Vec::new();
    for (name, jobs) in fams {
        let t = Timer::new();
        let st = run_jobs(&jobs, |st, j, c| group_case(st, j, c, monotone), |_s, _j| value::flush_distinct());
        rep.push(report(name, jobs.len(), &st, &t));
        total.merge(st);
    }
    (total, format!("\"families\":[{}]", rep.join(",")))
}

// ---------------------------------------------------------------------------
// C15 no heap allocation without `alloc`
// ---------------------------------------------------------------------------
pub fn c15(a: &Args) -> (Stats, String) {
    let mut fams: Fams = Vec::new();
    fams.push(("SHORT(3) sci in [-345,310]", fam::short(3, -345, 310, "SHORT3")));
    fams.push(("SEAM q in [-365,330]", fam::seam(-365, 330)));
    fams.push(("EXTREME", fam::extreme(a.thorough)));
    for (f, maxd) in [(F64, 769usize), (F32, 114)] {
        fams.push(("BOUNDARY-LIGHT", fam::boundary_light(f, 0, a.seed, if a.thorough { 1 } else { 2 }, fam::PL_SCI)));
        fams.push(("BOUNDARY-DEEP", fam::boundary_deep(f, if a.thorough { 4 } else { 64 }, a.seed, maxd, false)));
        fams.push(("THRESHOLDS", fam::threshold_family(f, false)));
    }
    fams.push(("LONG", fam::long_family(false)));
    if let Some(p) = &a.hard {
        fams.push(("HARD(q)", hard_jobs(p, MBOTH)));
        fams.push(("GAPS + LIMB-EDGE + RIPPLE", crate::gap_jobs(p)));
    }
    let mut total = Stats::default();
    let mut rep = Vec::new();
    for (name, jobs) in fams {
        let t = Timer::new();
        let st = run_jobs(
            &jobs,
            |st, _j, c| {
                st.cases += 1;
                *st.by_fam.entry(c.fam).or_insert(0) += 1;
                if st.samples.len() < 4 && st.cases % 4099 == 1 {
                    st.sample(case_sample(c));
                }
                fn one<F: RF>(st: &mut Stats, c: &Case) {
                    st.calls += 1;
                    let before = crate::alloc_count::allocs();
                    let r = real::parse::<F>(c.int, c.frac, c.exp);
                    let delta = crate::alloc_count::allocs() - before;
                    let slow = sig_digits(c) > 19;
                    if slow {
                        st.nontrivial += 1;
                        value::note_nontrivial(c);
                    }
                    if delta != 0 {
                        st.bump("calls_that_allocated");
                        if r.is_ok() && !cfg!(feature = "alloc") {
                            st.violation(mk_viol(c, F::FMT, "heap-allocation", format!("{} allocation(s) during the call", delta), "0".into()));
                        }
                    }
                    // the same input through iterators that are not slices (inexact size hint, chained buffers):
                    // "no allocation for any input" must not depend on the iterator type
                    if slow && c.int.len() + c.frac.len() <= 2000 {
                        st.calls += 1;
                        let ih = c.int.len() / 2;
                        let before = crate::alloc_count::allocs();
                        let r2 = std::panic::catch_unwind(std::panic::AssertUnwindSafe(|| {
                            minimal_lexical::parse_float::<F, _, _>(
                                c.int[..ih].iter().chain(c.int[ih..].iter()).filter(|b| **b != b'_'),
                                c.frac.iter().filter(|b| **b != b'_'),
                                c.exp,
                            )
                        }));
                        let delta2 = crate::alloc_count::allocs() - before;
                        if delta2 != 0 {
                            st.bump("calls_that_allocated");
                            if r2.is_ok() && !cfg!(feature = "alloc") {
                                st.violation(mk_viol(c, F::FMT, "heap-allocation", format!("{} allocation(s) during the call through Chain+Filter iterators", delta2), "0".into()));
                            }
                        }
                        // and through iterators with NO upper size bound: Flatten over 3-byte groups (size_hint = (n, None))
                        // (round 9, C15-S: a "collect first when the length is unknown" shortcut only shows here)
                        st.calls += 1;
                        let before = crate::alloc_count::allocs();
                        let r3 = std::panic::catch_unwind(std::panic::AssertUnwindSafe(|| {
                            minimal_lexical::parse_float::<F, _, _>(c.int.chunks(3).flatten(), c.frac.chunks(3).flatten(), c.exp)
                        }));
                        let delta3 = crate::alloc_count::allocs() - before;
                        if delta3 != 0 {
                            st.bump("calls_that_allocated");
                            if r3.is_ok() && !cfg!(feature = "alloc") {
                                st.violation(mk_viol(c, F::FMT, "heap-allocation", format!("{} allocation(s) during the call through Flatten iterators (no upper size bound)", delta3), "0".into()));
                            }
                        }
                    }
                }
                if c.fmts & M64 != 0 {
                    one::<f64>(st, c);
                }
                if c.fmts & M32 != 0 {
                    one::<f32>(st, c);
                }
            },
            |_s, _j| {},
        );
        rep.push(report(name, jobs.len(), &st, &t));
        total.merge(st);
    }
    (total, format!("\"alloc_feature\":{},\"families\":[{}]", cfg!(feature = "alloc"), rep.join(",")))
}
