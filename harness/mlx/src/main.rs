//! `mlx <property> [--tier quick|thorough] [--seed N] [--hard FILE] [--replay FILE] ...`
//!
//! One binary per feature configuration of minimal-lexical. Prints exactly one
//! line `RESULT {json}` on stdout; exit 0 = ran to completion (verdicts are in
//! the JSON), exit 3 = usage error. The python driver decides the exit status
//! of the check.

mod alloc_count;
mod props_a;
mod props_b;
mod props_c;
mod props_d;
mod props_e;
mod real;
mod run;
mod value;

#[global_allocator]
static GLOBAL: alloc_count::Counting = alloc_count::Counting;

use mlxcore::exact::{F32, F64};
use mlxcore::families::{self as fam, Job, M32, M64};
use run::{run_jobs, Stats, Timer};
use value::{value_case, ValueOpts};

pub struct Args {
    pub prop: String,
    pub thorough: bool,
    pub seed: u64,
    pub hard: Option<String>,
    pub replay: Option<String>,
    pub rest: Vec<String>,
}

fn parse_args() -> Args {
    let mut a = Args { prop: String::new(), thorough: false, seed: 0, hard: None, replay: None, rest: Vec::new() };
    let mut it = std::env::args().skip(1);
    while let Some(x) = it.next() {
        match x.as_str() {
            "--tier" => a.thorough = it.next().as_deref() == Some("thorough"),
            "--seed" => a.seed = it.next().and_then(|s| s.parse().ok()).unwrap_or(0),
            "--hard" => a.hard = it.next(),
            "--replay" => a.replay = it.next(),
            _ if a.prop.is_empty() => a.prop = x,
            _ => a.rest.push(x),
        }
    }
    a
}

/// Families shared by the value-correctness properties, for one format mask.
pub fn value_families(a: &Args, fmts: u8) -> Vec<(&'static str, Vec<Job>)> {
    let mut v: Vec<(&'static str, Vec<Job>)> = Vec::new();
    if a.thorough {
        v.push(("SHORT(5) sci in [-345,310]", fam::short(5, -345, 310, "SHORT5")));
    } else {
        v.push(("SHORT(3) sci in [-345,310]", fam::short(3, -345, 310, "SHORT3")));
        let mut s4 = fam::short(4, -40, 40, "SHORT4");
        s4.extend(fam::short(4, -345, -300, "SHORT4"));
        s4.extend(fam::short(4, 280, 310, "SHORT4"));
        v.push(("SHORT(4) sci in [-40,40] u [-345,-300] u [280,310]", s4));
    }
    v.push(("SEAM q in [-365,330]", fam::seam(-365, 330)));
    v.push(("EXTREME", fam::extreme(a.thorough)));
    for (m, f, maxd) in [(M64, F64, 769usize), (M32, F32, 114)] {
        if fmts & m == 0 {
            continue;
        }
        let extra = if a.thorough { 1024 } else { 32 };
        v.push((
            if m == M64 { "BOUNDARY-LIGHT(f64) all binades x patterns" } else { "BOUNDARY-LIGHT(f32) all binades x patterns" },
            fam::boundary_light(f, extra, a.seed, 1, fam::PL_SCI),
        ));
        let stride = if a.thorough { 1 } else if m == M64 { 32 } else { 8 };
        v.push((
            if m == M64 { "BOUNDARY-DEEP(f64)" } else { "BOUNDARY-DEEP(f32)" },
            fam::boundary_deep(f, stride, a.seed, maxd, a.thorough),
        ));
        v.push((if m == M64 { "THRESHOLDS(f64)" } else { "THRESHOLDS(f32)" }, fam::threshold_family(f, a.thorough)));
    }
    if let Some(path) = &a.hard {
        v.push(("HARD(q) from gen/hardcases.py", hard_jobs(path, fmts)));
        v.push(("GAPS: A*2^k+B with zero limb runs, exponent >= 135, moderate stage must decline; LIMB-EDGE: digits and halfway significand on different sides of a power of 2^64; RIPPLE: the last 19-digit chunk carries through every lower limb up to the halfway bit", gap_jobs(path)));
    }
    v
}

/// `str64 <exp> <digits> <kind>` lines of the generated file: long integers given as digit strings
/// (GAPS, LIMB-EDGE, RIPPLE, POW2-POS; DESIGN.md 3.4).
pub fn str64_entries(path: &str) -> Vec<(i32, Vec<u8>, &'static str)> {
    let text = std::fs::read_to_string(path).unwrap_or_default();
    let mut all: Vec<(i32, Vec<u8>, &'static str)> = Vec::new();
    for line in text.lines() {
        let mut it = line.split_whitespace();
        if it.next() != Some("str64") {
            continue;
        }
        if let (Some(e), Some(d)) = (it.next(), it.next()) {
            let label = match it.next() {
                Some("limbedge") => "LIMB-EDGE",
                Some("ripple") => "RIPPLE",
                Some("pow2pos") => "POW2-POS",
                _ => "GAPS",
            };
            if let Ok(e) = e.parse::<i32>() {
                all.push((e, d.as_bytes().to_vec(), label));
            }
        }
    }
    all
}

/// C10: every spelling of each structural digit string (and of its neighbours one unit away).
pub fn str64_respell_jobs(path: &str) -> Vec<Job> {
    let all = str64_entries(path);
    let mut jobs: Vec<Job> = Vec::new();
    for chunk in all.chunks(4) {
        let chunk = chunk.to_vec();
        jobs.push(Box::new(move |emit: &mut fam::Emit| {
            for (e, d, _label) in &chunk {
                fam::respell(emit, d, *e as i64, fam::MBOTH, 2);
                fam::respell(emit, &fam::bump_last(d, true), *e as i64, fam::MBOTH, 1);
            }
        }));
    }
    jobs
}

/// C09: a sorted chain through each structural digit string: D-1 < D-1 + 0.5 < D = D (scientific) < D + 10^-25 < D+1.
pub fn str64_chain_jobs(path: &str) -> Vec<Job> {
    let all = str64_entries(path);
    let mut jobs: Vec<Job> = Vec::new();
    for chunk in all.chunks(8) {
        let chunk = chunk.to_vec();
        jobs.push(Box::new(move |emit: &mut fam::Emit| {
            for (e, d, _label) in &chunk {
                let e = *e;
                let below = fam::bump_last(d, false);
                let above = fam::bump_last(d, true);
                let mut half = below.clone();
                half.push(b'5');
                let mut far = d.clone();
                far.extend_from_slice(b"0000000000000000000000001");
                if below.first() == Some(&b'0') || e < i32::MIN + 40 {
                    continue;
                }
                emit(&fam::Case { int: &below, frac: b"", exp: e, fam: "CHAIN-STR^", fmts: fam::MBOTH, expect: None });
                emit(&fam::Case { int: &half, frac: b"", exp: e - 1, fam: "CHAIN-STR", fmts: fam::MBOTH, expect: None });
                emit(&fam::Case { int: d, frac: b"", exp: e, fam: "CHAIN-STR", fmts: fam::MBOTH, expect: None });
                if d.len() > 1 && d.last() != Some(&b'0') {
                    emit(&fam::Case { int: &d[..1], frac: &d[1..], exp: e + (d.len() as i32 - 1), fam: "CHAIN-STR", fmts: fam::MBOTH, expect: None });
                }
                emit(&fam::Case { int: &far, frac: b"", exp: e - 25, fam: "CHAIN-STR", fmts: fam::MBOTH, expect: None });
                emit(&fam::Case { int: &above, frac: b"", exp: e, fam: "CHAIN-STR", fmts: fam::MBOTH, expect: None });
            }
        }));
    }
    jobs
}

pub fn gap_jobs(path: &str) -> Vec<Job> {
    let all = str64_entries(path);
    let mut jobs: Vec<Job> = Vec::new();
    for chunk in all.chunks(8) {
        let chunk = chunk.to_vec();
        jobs.push(Box::new(move |emit: &mut fam::Emit| {
            for (e, d, label) in &chunk {
                fam::emit_placements(emit, d, *e as i64, fam::PL_INT | fam::PL_SCI | fam::PL_MID, label, fam::MBOTH, None);
                // one unit either side in the last place, and with a far digit
                fam::emit_placements(emit, &fam::bump_last(d, true), *e as i64, fam::PL_INT, label, fam::MBOTH, None);
                fam::emit_placements(emit, &fam::bump_last(d, false), *e as i64, fam::PL_INT, label, fam::MBOTH, None);
                let mut v = d.clone();
                v.extend_from_slice(b"0000000000000000000000001");
                fam::emit_placements(emit, &v, *e as i64 - 25, fam::PL_INT, label, fam::MBOTH, None);
            }
        }));
    }
    jobs
}

/// Parse the (fmt, q, w) list written by gen/hardcases.py into jobs of 256 entries.
pub fn read_hard(path: &str) -> Vec<(u8, i32, u64)> {
    let text = std::fs::read_to_string(path).unwrap_or_else(|e| {
        eprintln!("cannot read {}: {}", path, e);
        std::process::exit(3)
    });
    let mut out = Vec::new();
    for line in text.lines() {
        let mut it = line.split_whitespace();
        let (Some(f), Some(q), Some(w)) = (it.next(), it.next(), it.next()) else { continue };
        let m = match f {
            "f64" => M64,
            "f32" => M32,
            _ => continue,
        };
        if let (Ok(q), Ok(w)) = (q.parse::<i32>(), w.parse::<u64>()) {
            out.push((m, q, w));
        }
    }
    out
}

pub fn hard_jobs(path: &str, fmts: u8) -> Vec<Job> {
    let all: Vec<(u8, i32, u64)> = read_hard(path).into_iter().filter(|x| x.0 & fmts != 0).collect();
    let mut jobs: Vec<Job> = Vec::new();
    for chunk in all.chunks(256) {
        let chunk = chunk.to_vec();
        jobs.push(Box::new(move |emit: &mut fam::Emit| {
            for &(m, q, w) in &chunk {
                fam::wq_cases(emit, w, q, m, "HARD");
            }
        }));
    }
    jobs
}

fn run_value(a: &Args, fmts: u8, fams: Vec<(&'static str, Vec<Job>)>) -> (Stats, String) {
    let mut total = Stats::default();
    let mut fam_report: Vec<String> = Vec::new();
    for (name, jobs) in fams {
        let opts = ValueOpts { fmts, core_cross: true, lean: name.starts_with("F32-MIDPOINTS") };
        let t = Timer::new();
        let st = run_jobs(
            &jobs,
            |st, j, c| value_case(st, j, c, &opts),
            |_st, _j| value::flush_distinct(),
        );
        fam_report.push(format!(
            "{{\"family\":{},\"jobs\":{},\"cases\":{},\"calls\":{},\"wall_s\":{:.2}}}",
            run::jstr(name),
            jobs.len(),
            st.cases,
            st.calls,
            t.secs()
        ));
        total.merge(st);
    }
    let _ = a;
    (total, format!("\"families\":[{}]", fam_report.join(",")))
}

/// C02 only: complete f32 binades. Quick: four seed-rotated binades in D and C (stride 16 elsewhere);
/// thorough: every binade (all 2^31 - 2^23 midpoints) in D and C, stride 16 elsewhere.
fn f32_midpoint_families(a: &Args) -> Vec<(&'static str, Vec<Job>)> {
    let full_cfg = matches!(real::cfg_name(), "D" | "C");
    let stride = if full_cfg { 1 } else { 16 };
    let mut jobs: Vec<Job> = Vec::new();
    let binades: Vec<u64> = if a.thorough {
        (0..F32.binades()).collect()
    } else {
        // the subnormal binade, the top binade and two seed-rotated ones
        let mut s = a.seed ^ 0xF32;
        let r1 = 1 + fam::splitmix(&mut s) % 253;
        let r2 = 1 + fam::splitmix(&mut s) % 253;
        let mut v = vec![0u64, 254, r1, r2];
        v.sort();
        v.dedup();
        v
    };
    for be in binades {
        jobs.extend(fam::boundary_full_binade(F32, be, 64, stride, a.seed));
    }
    vec![(if a.thorough { "F32-MIDPOINTS all binades" } else { "F32-MIDPOINTS four complete binades" }, jobs)]
}

pub fn rle_str(b: &[u8]) -> String {
    if b.is_empty() {
        return "-".to_string();
    }
    let mut o = String::new();
    let mut i = 0;
    while i < b.len() {
        let mut j = i;
        while j < b.len() && b[j] == b[i] {
            j += 1;
        }
        if !o.is_empty() {
            o.push(',');
        }
        o.push_str(&format!("{}x{}", b[i], j - i));
        i = j;
    }
    o
}

pub fn rle_arg_pub(s: &str) -> Vec<u8> {
    rle_arg(s)
}

fn rle_arg(s: &str) -> Vec<u8> {
    let mut out = Vec::new();
    if s == "-" {
        return out;
    }
    for part in s.split(',') {
        let (b, n) = part.split_once('x').expect("rle");
        let b: u8 = b.parse().expect("rle byte");
        let n: usize = n.parse().expect("rle count");
        out.resize(out.len() + n, b);
    }
    out
}

/// `mlx replay-parse <fmt> <exp> <int-rle> <frac-rle>`: one call, judged by the exact oracle.
fn replay_parse(rest: &[String]) -> ! {
    use mlxcore::exact::{check, expected, DecN};
    let fmt = rest[0].as_str();
    let exp: i32 = rest[1].parse().expect("exp");
    let int = rle_arg(&rest[2]);
    let frac = rle_arg(&rest[3]);
    if fmt == "both" {
        // crash replays: just make the two calls (a crash kills this process, which is the observation)
        let a = real::parse::<f32>(&int, &frac, exp);
        let b = real::parse::<f64>(&int, &frac, exp);
        println!("REPLAY cfg={} both formats survived: {:x?} {:x?}", real::cfg_name(), a, b);
        std::process::exit(0);
    }
    let v = DecN::from_parts(&int, &frac, exp);
    let (got, f) = if fmt == "f32" { (real::parse::<f32>(&int, &frac, exp), F32) } else { (real::parse::<f64>(&int, &frac, exp), F64) };
    let want = expected(&v, f);
    let show = format!("{}.{}e{}", run::abbrev(&int), run::abbrev(&frac), exp);
    match got {
        Ok(bits) => {
            let mut ok = check(&v, f, bits);
            println!("REPLAY cfg={} fmt={} input={} got={:#x} want={:#x} ok={}", real::cfg_name(), fmt, show, bits, want, ok);
            // the same digits through Filter / TakeWhile iterators (inexact size hints)
            for shape in 0..2u8 {
                let alt = if fmt == "f32" { real::parse_lossy::<f32>(&int, &frac, exp, shape) } else { real::parse_lossy::<f64>(&int, &frac, exp, shape) };
                let aok = matches!(alt, Ok(b) if check(&v, f, b));
                if !aok {
                    println!("REPLAY cfg={} fmt={} input={} through {} iterator got={:x?} want={:#x} ok=false", real::cfg_name(), fmt, show, ["filter", "take_while"][shape as usize], alt, want);
                    ok = false;
                }
            }
            // the same value with the decimal point right after a zero 20th digit, through a Filter iterator
            let n = int.len() + frac.len();
            if n > 20 && int.len() != 20 {
                let mut joined = int.clone();
                joined.extend_from_slice(&frac);
                let ex = exp as i64 - frac.len() as i64 + (n as i64 - 20);
                if joined[0] != b'0' && joined[19] == b'0' && joined[n - 1] != b'0' && ex >= i32::MIN as i64 && ex <= i32::MAX as i64 {
                    let alt = if fmt == "f32" { real::parse_lossy::<f32>(&joined[..20], &joined[20..], ex as i32, 0) } else { real::parse_lossy::<f64>(&joined[..20], &joined[20..], ex as i32, 0) };
                    if !matches!(alt, Ok(b) if check(&v, f, b)) {
                        println!("REPLAY cfg={} fmt={} input={} split after its (zero) 20th digit, through a filter iterator got={:x?} want={:#x} ok=false", real::cfg_name(), fmt, show, alt, want);
                        ok = false;
                    }
                }
            }
            std::process::exit(if ok { 0 } else { 1 });
        },
        Err(m) => {
            println!("REPLAY cfg={} fmt={} input={} got=panic({}) want={:#x} ok=false", real::cfg_name(), fmt, show, m, want);
            std::process::exit(1);
        },
    }
}

fn main() {
    let a = parse_args();
    real::silence_panics();
    let t = Timer::new();
    let (st, extra) = match a.prop.as_str() {
        "c01" => run_value(&a, M64, value_families(&a, M64)),
        "c02" => {
            let mut f = value_families(&a, M32);
            f.extend(f32_midpoint_families(&a));
            run_value(&a, M32, f)
        },
        "noop" => {
            println!("RESULT {{\"noop\":true,\"cases\":0,\"calls\":0,\"nviol\":0,\"violations\":[],\"machinery\":[]}}");
            return;
        },
        "replay-parse" => replay_parse(&a.rest),
        "replay-c11" => props_b::replay_c11(&a.rest),
        "replay-c17" => props_b::replay_c17(&a.rest),
        "replay-c18" => props_b::replay_c18(&a.rest),
        "replay-c12" => props_c::replay_c12(&a.rest),
        "replay-c13" => props_c::replay_c13(&a.rest),
        "replay-c19" => props_d::replay_c19(&a.rest),
        "c19" => props_d::c19(&a),
        "replay-c16" => props_e::replay_c16(&a.rest),
        "c16-one" => props_e::c16_one(&a.rest),
        "replay-c08" => props_e::replay_c08(&a.rest),
        "c16" => props_e::c16(&a),
        "c08" => props_e::c08(&a),
        "c12" => props_c::c12(&a),
        "c13" => props_c::c13(&a),
        "c14" => props_c::c14(&a),
        "c11" => props_b::c11(&a),
        "c17" => props_b::c17(&a),
        "c18" => props_b::c18(&a),
        "c03" => props_a::c03(&a),
        "c04" => props_a::c04(&a),
        "c05" => props_a::c05(&a),
        "c06" => props_a::c06(&a),
        "c07" => props_a::c07(&a),
        "c09" => props_a::c09(&a),
        "c10" => props_a::c10(&a),
        "c15" => props_a::c15(&a),
        _ => {
            eprintln!("unknown property {:?}", a.prop);
            std::process::exit(3);
        },
    };
    // collect distinct non-trivial cases from all worker threads (workers flushed at job ends;
    // whatever is left in thread-locals of finished threads was flushed by flush_distinct_final
    // in the worker wrapper - see run_jobs job_done hook)
    // distinct non-trivial cases: measured with a hash set where families may overlap; for the
    // API-level enumerations every case is generated once (deduplicated operand / exponent lists,
    // odometer enumeration of histories and strings), so the count of non-trivial cases is the distinct count
    let by_construction = matches!(a.prop.as_str(), "c08" | "c11" | "c12" | "c13" | "c14" | "c16" | "c17" | "c18");
    let distinct = if by_construction { st.nontrivial } else { value::distinct_count() };
    let extra = format!(
        "\"cfg\":{},\"distinct_nontrivial\":{},{}",
        run::jstr(real::cfg_name()),
        distinct,
        extra
    );
    println!("RESULT {}", st.json(t.secs(), &extra));
}
