//! Thin wrappers around the real code under verification.

use minimal_lexical::extended_float::ExtendedFloat;
use minimal_lexical::number::Number;
use minimal_lexical::Float;
use mlxcore::exact::{Fmt, F32, F64};
use std::panic::{catch_unwind, AssertUnwindSafe};

pub trait RF: Float + 'static {
    const FMT: Fmt;
    fn bits(self) -> u64;
    fn core_parse(s: &str) -> Option<u64>;
}
impl RF for f32 {
    const FMT: Fmt = F32;
    fn bits(self) -> u64 {
        f32::to_bits(self) as u64
    }
    fn core_parse(s: &str) -> Option<u64> {
        s.parse::<f32>().ok().map(|x| x.to_bits() as u64)
    }
}
impl RF for f64 {
    const FMT: Fmt = F64;
    fn bits(self) -> u64 {
        f64::to_bits(self)
    }
    fn core_parse(s: &str) -> Option<u64> {
        s.parse::<f64>().ok().map(|x| x.to_bits())
    }
}

pub fn silence_panics() {
    std::panic::set_hook(Box::new(|_| {}));
}

pub fn panic_msg(e: Box<dyn std::any::Any + Send>) -> String {
    if let Some(s) = e.downcast_ref::<&str>() {
        s.to_string()
    } else if let Some(s) = e.downcast_ref::<String>() {
        s.clone()
    } else {
        "panic".to_string()
    }
}

/// `parse_float::<F>` on slice iterators; a panic becomes `Err(message)`.
#[inline]
pub fn parse<F: RF>(int: &[u8], frac: &[u8], exp: i32) -> Result<u64, String> {
    match catch_unwind(AssertUnwindSafe(|| minimal_lexical::parse_float::<F, _, _>(int.iter(), frac.iter(), exp))) {
        Ok(x) => Ok(x.bits()),
        Err(e) => Err(panic_msg(e)),
    }
}

/// The same digits through iterators whose `size_hint` upper bound overshoots what they yield: shape 0 filters
/// `_` separators out of a padded buffer, shape 1 stops at the first non-digit of a longer buffer (`take_while`).
pub fn parse_lossy<F: RF>(int: &[u8], frac: &[u8], exp: i32, shape: u8) -> Result<u64, String> {
    fn pad(d: &[u8], shape: u8) -> Vec<u8> {
        let mut v = Vec::with_capacity(d.len() * 2 + 8);
        if shape == 0 {
            for (i, &c) in d.iter().enumerate() {
                if i % 3 == 0 {
                    v.push(b'_');
                }
                v.push(c);
            }
            v.extend_from_slice(b"__");
        } else {
            v.extend_from_slice(d);
            v.extend_from_slice(b".5e7 trailing");
        }
        v
    }
    let (bi, bf) = (pad(int, shape), pad(frac, shape));
    let r = catch_unwind(AssertUnwindSafe(|| {
        if shape == 0 {
            minimal_lexical::parse_float::<F, _, _>(bi.iter().filter(|&&c| c != b'_'), bf.iter().filter(|&&c| c != b'_'), exp)
        } else {
            minimal_lexical::parse_float::<F, _, _>(bi.iter().take_while(|c| c.is_ascii_digit()), bf.iter().take_while(|c| c.is_ascii_digit()), exp)
        }
    }));
    match r {
        Ok(x) => Ok(x.bits()),
        Err(e) => Err(panic_msg(e)),
    }
}

/// No unwinding guard (used where a panic must abort the child process visibly).
#[inline]
pub fn parse_raw<F: RF>(int: &[u8], frac: &[u8], exp: i32) -> u64 {
    minimal_lexical::parse_float::<F, _, _>(int.iter(), frac.iter(), exp).bits()
}

pub const PATHS: [&str; 9] = [
    "zero",
    "fast",
    "fast-disguised",
    "moderate",
    "moderate-truncated",
    "slow-positive",
    "slow-negative",
    "slow-cut",
    "classify-panic",
];

/// Which internal path the real code takes (coverage accounting only; never a verdict).
pub fn classify<F: RF>(int: &[u8], frac: &[u8], exp: i32) -> (&'static str, Option<Number>) {
    let r = catch_unwind(AssertUnwindSafe(|| {
        let num = minimal_lexical::parse::verif_parse_number(int.iter(), frac.iter(), exp);
        if num.mantissa == 0 {
            return (0usize, num);
        }
        if num.try_fast_path::<F>().is_some() {
            return (if num.exponent > F::MAX_EXPONENT_FAST_PATH { 2 } else { 1 }, num);
        }
        let fp: ExtendedFloat = minimal_lexical::parse::moderate_path::<F>(&num);
        if fp.exp >= 0 {
            return (if num.many_digits { 4 } else { 3 }, num);
        }
        // significant digits
        let mut n = 0usize;
        let mut seen = false;
        for &c in int.iter().chain(frac.iter()) {
            if c != b'0' {
                seen = true;
            }
            if seen {
                n += 1;
            }
        }
        if n > F::MAX_DIGITS {
            return (7, num);
        }
        let sci = minimal_lexical::slow::scientific_exponent(&num);
        if sci + 1 - n as i32 >= 0 {
            (5, num)
        } else {
            (6, num)
        }
    }));
    match r {
        Ok((i, n)) => (PATHS[i], Some(n)),
        Err(_) => (PATHS[8], None),
    }
}

pub fn literal(int: &[u8], frac: &[u8], exp: i32) -> String {
    let mut s = String::with_capacity(int.len() + frac.len() + 16);
    s.push_str(std::str::from_utf8(int).unwrap_or("?"));
    s.push('.');
    s.push_str(std::str::from_utf8(frac).unwrap_or("?"));
    s.push('e');
    s.push_str(&exp.to_string());
    s
}

pub fn cfg_name() -> &'static str {
    match (cfg!(feature = "std"), cfg!(feature = "compact"), cfg!(feature = "alloc")) {
        (true, false, false) => "D",
        (true, true, false) => "C",
        (true, false, true) => "A",
        (true, true, true) => "CA",
        (false, false, false) => "N",
        (false, true, false) => "NC",
        (false, false, true) => "NA",
        (false, true, true) => "NCA",
    }
}
