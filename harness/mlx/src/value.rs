//! Value-correctness sink shared by C01, C02, C06, C07 (and the families of C04/C15):
//! run the real parser on a case and judge the bits with the exact oracle.

use crate::real::{self, RF};
use crate::run::{case_sample, Stats, Violation};
use mlxcore::exact::{check, expected, DecN};
use mlxcore::families::{Case, M32, M64};
use std::collections::HashSet;
use std::hash::{BuildHasherDefault, Hasher};

#[derive(Default)]
pub struct IdHasher(u64);
impl Hasher for IdHasher {
    fn finish(&self) -> u64 {
        self.0
    }
    fn write(&mut self, _: &[u8]) {
        unreachable!()
    }
    fn write_u64(&mut self, x: u64) {
        self.0 = x;
    }
}
pub type U64Set = HashSet<u64, BuildHasherDefault<IdHasher>>;

pub fn case_hash(c: &Case) -> u64 {
    // FNV-1a over int | 0xFF | frac | exp, then a finaliser
    let mut h: u64 = 0xcbf29ce484222325;
    let mut eat = |b: u8| {
        h ^= b as u64;
        h = h.wrapping_mul(0x100000001b3);
    };
    for &b in c.int {
        eat(b);
    }
    eat(0xFF);
    for &b in c.frac {
        eat(b);
    }
    eat(0xFE);
    for b in c.exp.to_le_bytes() {
        eat(b);
    }
    h ^= h >> 32;
    h = h.wrapping_mul(0x9E3779B97F4A7C15);
    h ^ (h >> 29)
}

thread_local! {
    pub static DISTINCT: std::cell::RefCell<U64Set> = std::cell::RefCell::new(U64Set::default());
}
pub static GLOBAL_DISTINCT: std::sync::Mutex<Option<U64Set>> = std::sync::Mutex::new(None);
const DISTINCT_CAP: usize = 6_000_000;
/// Once the global set holds this many hashes the count is reported as a lower bound and no more
/// hashes are collected (the set would otherwise serialise the workers of the thorough tier).
const GLOBAL_CAP: usize = 16_000_000;
static FULL: std::sync::atomic::AtomicBool = std::sync::atomic::AtomicBool::new(false);

pub fn note_nontrivial(c: &Case) {
    if FULL.load(std::sync::atomic::Ordering::Relaxed) {
        return;
    }
    DISTINCT.with(|s| {
        let mut s = s.borrow_mut();
        if s.len() < DISTINCT_CAP {
            s.insert(case_hash(c));
        }
    });
}
/// Called by each worker at the end of a job to bound memory: flush to the global set.
pub fn flush_distinct() {
    DISTINCT.with(|s| {
        let mut s = s.borrow_mut();
        if s.len() > 200_000 {
            let mut g = GLOBAL_DISTINCT.lock().unwrap();
            let g = g.get_or_insert_with(U64Set::default);
            if g.len() < GLOBAL_CAP {
                g.extend(s.drain());
            } else {
                FULL.store(true, std::sync::atomic::Ordering::Relaxed);
                s.clear();
            }
        }
    });
}
pub fn flush_distinct_final() {
    DISTINCT.with(|s| {
        let mut s = s.borrow_mut();
        let mut g = GLOBAL_DISTINCT.lock().unwrap();
        let g = g.get_or_insert_with(U64Set::default);
        g.extend(s.drain());
    });
}
pub fn distinct_count() -> u64 {
    GLOBAL_DISTINCT.lock().unwrap().as_ref().map(|g| g.len() as u64).unwrap_or(0)
}

pub struct ValueOpts {
    /// formats this property judges
    pub fmts: u8,
    /// cross-check against core's parser
    pub core_cross: bool,
    /// lean mode for the complete f32 enumerations: judge by the by-construction expectation,
    /// run the exact oracle and the path classification on every 64th call (and on every mismatch)
    pub lean: bool,
}

fn one<F: RF>(st: &mut Stats, c: &Case, opts: &ValueOpts, v: &DecN) {
    st.calls += 1;
    let got = real::parse::<F>(c.int, c.frac, c.exp);
    if opts.lean && st.calls % 64 != 0 {
        if let (Ok(bits), Some(e)) = (&got, c.expect) {
            if *bits == e {
                st.bump("by_construction_checked");
                return;
            }
        }
    }
    let (path, _num) = real::classify::<F>(c.int, c.frac, c.exp);
    *st.by_path.entry(path).or_insert(0) += 1;
    if path != "zero" && path != "fast" {
        st.nontrivial += 1;
        note_nontrivial(c);
    }
    let f = F::FMT;
    let viol = |st: &mut Stats, kind: &str, got: String, want: String| {
        st.violation(Violation {
            kind: kind.to_string(),
            fmt: f.name,
            int: c.int.to_vec(),
            frac: c.frac.to_vec(),
            exp: c.exp,
            fam: c.fam.to_string(),
            got,
            want,
            extra: String::new(),
        })
    };
    match got {
        Err(msg) => {
            let want = expected(v, f);
            viol(st, "panic", format!("panic: {}", msg), format!("{:#x}", want));
        },
        Ok(bits) => {
            let ok = check(v, f, bits);
            if let Some(e) = c.expect {
                st.bump("by_construction_checked");
                if !check(v, f, e) {
                    st.machinery(format!(
                        "oracle disagreement (construction vs exact) on {} fam={} fmt={} construction={:#x}",
                        real::literal(c.int, c.frac, c.exp).chars().take(200).collect::<String>(),
                        c.fam,
                        f.name,
                        e
                    ));
                }
            }
            if !ok {
                let want = expected(v, f);
                viol(st, "misrounded", format!("{:#x}", bits), format!("{:#x}", want));
            }
            // the same valid digits through an iterator with an inexact size hint (Filter / TakeWhile): every 4th input of
            // 20 or more digits. The value is a function of the digits, not of the iterator type (round 8, C02-Q / C06-Q).
            // ... and, when the 20th significant digit is a zero, the same value written with the decimal point right after
            // it, through a Filter iterator: the 19 retained digits are then followed by dropped *integer* zeros and a
            // fraction whose size hint has a zero lower bound (round 9, C07-S; equal values, equal bits)
            let n = c.int.len() + c.frac.len();
            if ok && n > 20 && c.int.len() != 20 && (!c.int.is_empty() || c.frac[0] != b'0') {
                let d19 = if c.int.len() > 19 { c.int[19] } else { c.frac[19 - c.int.len()] };
                let last = if c.frac.is_empty() { c.int[c.int.len() - 1] } else { c.frac[c.frac.len() - 1] };
                let ex = c.exp as i64 - c.frac.len() as i64 + (n as i64 - 20);
                if d19 == b'0' && last != b'0' && ex >= i32::MIN as i64 && ex <= i32::MAX as i64 {
                    let mut joined: Vec<u8> = Vec::with_capacity(n);
                    joined.extend_from_slice(c.int);
                    joined.extend_from_slice(c.frac);
                    st.bump("split_after_zero_20th_digit_checked");
                    match real::parse_lossy::<F>(&joined[..20], &joined[20..], ex as i32, 0) {
                        Ok(b2) if b2 == bits => {},
                        Ok(b2) => viol(st, "misrounded-when-split-after-a-zero-20th-digit-through-filter-iterator", format!("{:#x}", b2), format!("{:#x}", bits)),
                        Err(msg) => viol(st, "panic-when-split-after-a-zero-20th-digit-through-filter-iterator", format!("panic: {}", msg), format!("{:#x}", bits)),
                    }
                }
            }
            if ok && c.int.len() + c.frac.len() >= 20 && st.calls % 4 == 0 {
                st.bump("lossy_iterator_checked");
                match real::parse_lossy::<F>(c.int, c.frac, c.exp, (st.calls / 4 % 2) as u8) {
                    Ok(b2) if b2 == bits => {},
                    Ok(b2) => viol(st, "misrounded-through-filter-or-take_while-iterator", format!("{:#x}", b2), format!("{:#x}", bits)),
                    Err(msg) => viol(st, "panic-through-filter-or-take_while-iterator", format!("panic: {}", msg), format!("{:#x}", bits)),
                }
            }
            if opts.core_cross {
                let len = c.int.len() + c.frac.len();
                if len > 0 && (len <= 64 || (st.calls % 16 == 0 && len <= 3000)) {
                    st.bump("core_cross_checked");
                    let lit = real::literal(c.int, c.frac, c.exp);
                    if let Some(cb) = F::core_parse(&lit) {
                        if !check(v, f, cb) {
                            st.machinery(format!(
                                "oracle disagreement (core parse vs exact) on {} fmt={} core={:#x}",
                                lit.chars().take(200).collect::<String>(),
                                f.name,
                                cb
                            ));
                        }
                    }
                }
            }
        },
    }
}

pub fn value_case(st: &mut Stats, job: usize, c: &Case, opts: &ValueOpts) {
    let m = c.fmts & opts.fmts;
    if m == 0 {
        return;
    }
    st.cases += 1;
    *st.by_fam.entry(c.fam).or_insert(0) += 1;
    if st.samples.len() < 4 && (st.cases == 1 || (job % 97 == 0 && st.cases % 1009 == 0)) {
        st.sample(case_sample(c));
    }
    // (in lean mode the oracle value is still cheap: midpoints of f32 have <= 113 digits)
    let v = DecN::from_parts(c.int, c.frac, c.exp);
    if m & M64 != 0 {
        one::<f64>(st, c, opts, &v);
    }
    if m & M32 != 0 {
        one::<f32>(st, c, opts, &v);
    }
}
