//! Counting global allocator with a thread-local counter (C15).
use std::alloc::{GlobalAlloc, Layout, System};
use std::cell::Cell;

thread_local! { static ALLOCS: Cell<u64> = const { Cell::new(0) }; }

pub struct Counting;

unsafe impl GlobalAlloc for Counting {
    unsafe fn alloc(&self, l: Layout) -> *mut u8 {
        let _ = ALLOCS.try_with(|c| c.set(c.get() + 1));
        System.alloc(l)
    }
    unsafe fn dealloc(&self, p: *mut u8, l: Layout) {
        System.dealloc(p, l)
    }
    unsafe fn alloc_zeroed(&self, l: Layout) -> *mut u8 {
        let _ = ALLOCS.try_with(|c| c.set(c.get() + 1));
        System.alloc_zeroed(l)
    }
    unsafe fn realloc(&self, p: *mut u8, l: Layout, n: usize) -> *mut u8 {
        let _ = ALLOCS.try_with(|c| c.set(c.get() + 1));
        System.realloc(p, l, n)
    }
}

/// Allocation calls made so far by the current thread.
pub fn allocs() -> u64 {
    ALLOCS.with(|c| c.get())
}
