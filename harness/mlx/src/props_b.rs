//! Properties decided on the doc-hidden public stage APIs: C11 (moderate stage),
//! C17 (Float helpers), C18 (shift-and-round primitive).

use crate::real::{self, RF};
use crate::run::{self, api_violation, run_jobs, Stats, Timer};
use crate::Args;
use minimal_lexical::extended_float::{extended_to_float, ExtendedFloat};
use minimal_lexical::number::Number;
use minimal_lexical::Float;
use mlxcore::exact::{check, expected, DecN, Fmt, F32, F64};
use mlxcore::families::{self as fam, Job, M32, M64};
use mlxcore::nat::Nat;
use std::cmp::Ordering;
use std::panic::{catch_unwind, AssertUnwindSafe};

// ---------------------------------------------------------------------------
// C11
// ---------------------------------------------------------------------------

#[derive(Debug, PartialEq)]
pub enum ModOutcome {
    Declined,
    Definite(u64),
    Panic(String),
}

pub fn moderate<F: RF>(w: u64, q: i32, t: bool) -> ModOutcome {
    let num = Number { mantissa: w, exponent: q, many_digits: t };
    match catch_unwind(AssertUnwindSafe(|| {
        let fp: ExtendedFloat = minimal_lexical::parse::moderate_path::<F>(&num);
        if fp.exp < 0 {
            None
        } else {
            Some(extended_to_float::<F>(fp).bits())
        }
    })) {
        Ok(None) => ModOutcome::Declined,
        Ok(Some(b)) => ModOutcome::Definite(b),
        Err(e) => ModOutcome::Panic(real::panic_msg(e)),
    }
}

/// Is `bits` the correct rounding of `w*10^q` and, if `t`, of every real in `[w, w+1)*10^q`?
pub fn definite_ok(f: Fmt, w: u64, q: i32, t: bool, bits: u64) -> bool {
    let lo = DecN::from_u64(w, q as i64);
    if !check(&lo, f, bits) {
        return false;
    }
    if t {
        if bits >= f.inf_bits() {
            return bits == f.inf_bits();
        }
        // sup of the interval must not exceed the upper end of the rounding interval of `bits`
        let hi = {
            let n = Nat::from_u128(w as u128 + 1);
            let nd = n.to_dec().len();
            DecN { d: n, nd, exp10: q as i64, sticky: false }
        };
        let (k, j) = f.upper_boundary(bits);
        if hi.cmp_bin(k, j) == Ordering::Greater {
            return false;
        }
    }
    true
}

fn c11_one<F: RF>(st: &mut Stats, w: u64, q: i32, t: bool, kind: &'static str) {
    st.calls += 1;
    match moderate::<F>(w, q, t) {
        ModOutcome::Declined => st.bump(if F::FMT == F64 { "f64_declined" } else { "f32_declined" }),
        ModOutcome::Panic(_) => st.bump("panic_recorded_not_judged"),
        ModOutcome::Definite(b) => {
            st.bump(if F::FMT == F64 { "f64_definite" } else { "f32_definite" });
            if !definite_ok(F::FMT, w, q, t, b) {
                let want = expected(&DecN::from_u64(w, q as i64), F::FMT);
                st.violation(api_violation(
                    "confidently-wrong",
                    F::FMT.name,
                    format!("moderate_path::<{}>(w={}, q={}, truncated={}) [{}]", F::FMT.name, w, q, t, kind),
                    format!("definite {:#x}", b),
                    format!("declined, or {:#x}{}", want, if t { " valid for all of [w, w+1)*10^q" } else { "" }),
                    vec!["replay-c11".into(), F::FMT.name.into(), w.to_string(), q.to_string(), (t as u8).to_string()],
                ));
            }
        },
    }
}

pub fn replay_c11(rest: &[String]) -> ! {
    let w: u64 = rest[1].parse().unwrap();
    let q: i32 = rest[2].parse().unwrap();
    let t = rest[3] == "1";
    let (out, f) = if rest[0] == "f32" { (moderate::<f32>(w, q, t), F32) } else { (moderate::<f64>(w, q, t), F64) };
    let ok = match &out {
        ModOutcome::Definite(b) => definite_ok(f, w, q, t, *b),
        _ => true,
    };
    println!("REPLAY cfg={} moderate_path::<{}>(w={}, q={}, truncated={}) -> {:?} ok={}", real::cfg_name(), f.name, w, q, t, out, ok);
    std::process::exit(if ok { 0 } else { 1 })
}

pub fn c11_exponents() -> Vec<i32> {
    let mut q: Vec<i64> = (-400..=350).collect();
    for e in [
        i32::MIN as i64, i32::MIN as i64 + 1, -100_000, -0x1001, -0x1000, -0xFFF, 0xFFF, 0x1000, 0x1001, 100_000, i32::MAX as i64 - 1, i32::MAX as i64,
    ] {
        q.push(e);
    }
    q.sort();
    q.dedup();
    q.into_iter().map(|x| x as i32).collect()
}

pub fn c11(a: &Args) -> (Stats, String) {
    let mut ws: Vec<u64> = fam::seam_significands().into_iter().filter(|w| *w < (1u128 << 64)).map(|w| w as u64).collect();
    // every significand below 2^14 (thorough: 2^18) - complete in w for the short inputs S0 hands over unchanged
    for w in 0..(if a.thorough { 1u64 << 18 } else { 1u64 << 14 }) {
        ws.push(w);
    }
    for j in 0..40u64 {
        ws.push(u64::MAX - j);
    }
    {
        // dense windows at the 19/20-digit edges, 2^63 and 2^64 (quick: 1024 wide, thorough: 32768 wide)
        for k in 0..(if a.thorough { 32768u64 } else { 1024u64 }) {
            ws.push(1_000_000_000_000_000_000 + k);
            ws.push(9_999_999_999_999_999_999 - k);
            ws.push((1u64 << 63) + k);
            ws.push((1u64 << 63) - 1 - k);
            ws.push(u64::MAX - k);
        }
    }
    ws.sort();
    ws.dedup();
    let ws = std::sync::Arc::new(ws);
    let qs = c11_exponents();
    let t = Timer::new();
    // structured domain: one job per exponent
    let mut jobs: Vec<Job> = Vec::new();
    let _ = &mut jobs;
    let per_q = |st: &mut Stats, q: i32| {
        for &w in ws.iter() {
            for tr in [false, true] {
                if tr && w == 0 {
                    continue; // denotes no input: leading zeros are skipped before accumulation
                }
                st.cases += 1;
                if w >= 1_000_000_000_000_000_000 || tr {
                    st.nontrivial += 1;
                }
                c11_one::<f64>(st, w, q, tr, "structured");
                c11_one::<f32>(st, w, q, tr, "structured");
            }
        }
    };
    // run_jobs wants case-emitting jobs; here each job is a no-op emitter and the work happens in job_done
    let dummy: Vec<Job> = qs.iter().map(|_| -> Job { Box::new(|_e: &mut fam::Emit| {}) }).collect();
    let mut st = run_jobs(&dummy, |_s, _j, _c| {}, |st, j| per_q(st, qs[j]));
    let structured = format!("{{\"family\":\"structured (w,q,t): {} significands x {} exponents x 2\",\"cases\":{},\"wall_s\":{:.2}}}", ws.len(), qs.len(), st.cases, t.secs());
    // HARD(q)
    let mut hard_rep = String::new();
    if let Some(p) = &a.hard {
        let t = Timer::new();
        let all = std::sync::Arc::new(crate::read_hard(p));
        let nchunks = (all.len() + 4095) / 4096;
        let dummy: Vec<Job> = (0..nchunks).map(|_| -> Job { Box::new(|_e: &mut fam::Emit| {}) }).collect();
        let all2 = all.clone();
        let st2 = run_jobs(
            &dummy,
            |_s, _j, _c| {},
            |st, j| {
                for &(m, q, w) in &all2[j * 4096..((j + 1) * 4096).min(all2.len())] {
                    for tr in [false, true] {
                        if tr && w == 0 {
                            continue;
                        }
                        st.cases += 1;
                        st.nontrivial += 1;
                        if m & M64 != 0 {
                            c11_one::<f64>(st, w, q, tr, "HARD");
                        }
                        if m & M32 != 0 {
                            c11_one::<f32>(st, w, q, tr, "HARD");
                        }
                    }
                }
            },
        );
        hard_rep = format!(",{{\"family\":\"HARD(q) x truncated in {{false,true}}\",\"cases\":{},\"wall_s\":{:.2}}}", st2.cases, t.secs());
        st.merge(st2);
    }
    st.sample("moderate_path::<f64>(w=9007199254740993, q=0, truncated=false)".into());
    st.sample("moderate_path::<f32>(w=18446744073709551615, q=-65, truncated=true)".into());
    st.sample(format!("moderate_path::<f64>(w={}, q={}, truncated=true)", ws[ws.len() / 2], qs[qs.len() / 3]));
    (st, format!("\"stage\":\"{}\",\"families\":[{}{}]", if cfg!(feature = "compact") { "bellerophon" } else { "eisel-lemire" }, structured, hard_rep))
}

// ---------------------------------------------------------------------------
// C18 shift-and-round
// ---------------------------------------------------------------------------

/// Exact reference: round `mant * 2^(exp - bias_total)` to the IEEE encoding.
/// `exp` is the biased exponent of the 64-bit normalised significand as the crate uses it
/// (value = mant * 2^(exp - EXPONENT_BIAS)), `sticky_above` / closure semantics are applied by the caller.
/// mode: 0 nearest-even; 1 nearest-even, with "truncated" sticky breaking ties upward; 2 round down.
fn ref_round(f: Fmt, mant: u64, exp: i32, mode: u8) -> u64 {
    // value = mant * 2^(exp - bias), bias = f.bias() + mant_bits
    let mb = f.mant_bits() as i32;
    let e = exp - (f.bias() + mb); // exponent of mant's unit
    // candidate ulp exponent: for normal results, the result has p bits: ulp = e + (64 - p); for subnormal, ulp = emin_ulp
    let p = f.p as i32;
    let ulp = (e + 64 - p).max(f.emin_ulp());
    let shift = ulp - e; // number of low bits of mant dropped, >= 64 - p >= 11
    let (kept, rem, half): (u128, u128, u128) = if shift >= 128 {
        (0, 1, 2) // below half (mant != 0 and shift >= 128 means far below)
    } else {
        let m = mant as u128;
        let kept = if shift >= 128 { 0 } else { m >> shift };
        let rem = m & ((1u128 << shift) - 1);
        (kept, rem, 1u128 << (shift - 1))
    };
    let mut k = kept;
    let up = match mode {
        2 => false,
        1 => rem >= half,
        _ => rem > half || (rem == half && k & 1 == 1),
    };
    if up {
        k += 1;
    }
    // encode k * 2^ulp
    if k == 0 {
        return 0;
    }
    let mut k = k;
    let mut ulp = ulp;
    if k >> p != 0 {
        k >>= 1;
        ulp += 1;
    }
    if k >> (p - 1) == 0 {
        return k as u64; // subnormal (ulp == emin_ulp)
    }
    let be = ulp - f.emin_ulp() + 1;
    if be as u64 >= (1u64 << f.ebits) - 1 {
        return f.inf_bits();
    }
    ((be as u64) << f.mant_bits()) | (k as u64 & ((1u64 << f.mant_bits()) - 1))
}

fn real_round<F: RF>(mant: u64, exp: i32, mode: u8) -> Result<u64, String> {
    use minimal_lexical::rounding::{round, round_down, round_nearest_tie_even};
    catch_unwind(AssertUnwindSafe(|| {
        let mut fp = ExtendedFloat { mant, exp };
        match mode {
            0 => round::<F, _>(&mut fp, |f, s| round_nearest_tie_even(f, s, |is_odd, is_halfway, is_above| is_above || (is_odd && is_halfway))),
            1 => round::<F, _>(&mut fp, |f, s| round_nearest_tie_even(f, s, |is_odd, is_halfway, is_above| is_above || is_halfway || (is_odd && is_halfway))),
            _ => round::<F, _>(&mut fp, round_down),
        }
        extended_to_float::<F>(fp).bits()
    }))
    .map_err(real::panic_msg)
}

fn c18_one<F: RF>(st: &mut Stats, mant: u64, exp: i32, mode: u8) {
    st.calls += 1;
    let want = ref_round(F::FMT, mant, exp, mode);
    let got = real_round::<F>(mant, exp, mode);
    if got != Ok(want) {
        st.violation(api_violation(
            "misrounded-primitive",
            F::FMT.name,
            format!("round::<{}>(mant={:#x}, exp={}, mode={})", F::FMT.name, mant, exp, ["nearest-even", "nearest-even+sticky", "down"][mode as usize]),
            format!("{:x?}", got),
            format!("{:#x}", want),
            vec!["replay-c18".into(), F::FMT.name.into(), format!("{}", mant), exp.to_string(), mode.to_string()],
        ));
    }
}

pub fn replay_c18(rest: &[String]) -> ! {
    if rest[0] == "mask" {
        let n: u64 = rest[1].parse().unwrap();
        let ok = mask_ok(n).is_none();
        println!("REPLAY mask helpers n={} ok={} {:?}", n, ok, mask_ok(n));
        std::process::exit(if ok { 0 } else { 1 });
    }
    let mant: u64 = rest[1].parse().unwrap();
    let exp: i32 = rest[2].parse().unwrap();
    let mode: u8 = rest[3].parse().unwrap();
    let (got, want) = if rest[0] == "f32" {
        (real_round::<f32>(mant, exp, mode), ref_round(F32, mant, exp, mode))
    } else {
        (real_round::<f64>(mant, exp, mode), ref_round(F64, mant, exp, mode))
    };
    let ok = got == Ok(want);
    println!("REPLAY cfg={} round::<{}>(mant={:#x}, exp={}, mode={}) -> {:x?} want {:#x} ok={}", real::cfg_name(), rest[0], mant, exp, mode, got, want, ok);
    std::process::exit(if ok { 0 } else { 1 })
}

fn mask_ok(n: u64) -> Option<String> {
    use minimal_lexical::mask::{lower_n_halfway, lower_n_mask, nth_bit};
    let r = catch_unwind(|| {
        let want_mask: u64 = if n == 64 { u64::MAX } else { (1u64 << n) - 1 };
        let want_half: u64 = if n == 0 { 0 } else { 1u64 << (n - 1) };
        let mut bad = Vec::new();
        if lower_n_mask(n) != want_mask {
            bad.push(format!("lower_n_mask({})={:#x} want {:#x}", n, lower_n_mask(n), want_mask));
        }
        if lower_n_halfway(n) != want_half {
            bad.push(format!("lower_n_halfway({})={:#x} want {:#x}", n, lower_n_halfway(n), want_half));
        }
        if n < 64 && nth_bit(n) != 1u64 << n {
            bad.push(format!("nth_bit({})={:#x}", n, nth_bit(n)));
        }
        bad
    });
    match r {
        Ok(b) if b.is_empty() => None,
        Ok(b) => Some(b.join("; ")),
        Err(e) => Some(format!("panic: {}", real::panic_msg(e))),
    }
}

/// Significands for a given number of dropped bits: kept-bits patterns x dropped-bits patterns.
fn c18_mants(shift: u32, thorough: bool) -> Vec<u64> {
    let mut out = Vec::new();
    let shift = shift.min(64);
    let kept_bits = 64 - shift; // may be 0
    let mut kept: Vec<u64> = Vec::new();
    if kept_bits > 0 {
        let max = if kept_bits == 64 { u64::MAX } else { (1u64 << kept_bits) - 1 };
        let top = 1u64 << (kept_bits - 1);
        let mut add = |v: u64| kept.push((v & max) | top);
        add(0);
        add(1);
        add(2);
        add(3);
        add(max);
        add(max - 1);
        add(max - 2);
        add(0x5555_5555_5555_5555);
        add(0xAAAA_AAAA_AAAA_AAAA);
        if thorough {
            // every pattern of the low 6 kept bits, under an all-ones and an all-zeros upper part
            for low in 0..64u64 {
                add(low);
                add((max & !63) | low);
            }
        }
        let step = if thorough { 1 } else { 3 };
        let mut k = 0;
        while k < kept_bits {
            add(1u64 << k);
            add((1u64 << k) - 1);
            add(max ^ ((1u64 << k) - 1));
            add(max ^ (1u64 << k));
            k += step;
        }
    } else {
        kept.push(0);
    }
    kept.sort();
    kept.dedup();
    let dmax: u128 = (1u128 << shift) - 1;
    let half: u128 = if shift == 0 { 0 } else { 1u128 << (shift - 1) };
    let mut dropped: Vec<u128> = vec![0, 1, dmax, dmax.saturating_sub(1)];
    if shift > 0 {
        dropped.extend_from_slice(&[half, half.saturating_sub(1), (half + 1).min(dmax), half >> 1, half | (half >> 1)]);
        if thorough {
            // a dense window around the halfway point and at both ends
            for k in 0..64u128 {
                dropped.push(half.saturating_sub(k));
                dropped.push((half + k).min(dmax));
                dropped.push(k.min(dmax));
                dropped.push(dmax.saturating_sub(k));
            }
        }
    }
    // round 9: one dropped bit at every position - alone, on top of the halfway bit, taken off the halfway point and off
    // the all-ones pattern (a sticky test that only looks at part of the dropped bits is wrong for exactly one of them).
    // Applied to a reduced set of kept patterns (`dropped_wide`) to bound the cost.
    let mut dropped_wide: Vec<u128> = Vec::new();
    if shift > 1 {
        for i in 0..(shift - 1) {
            let b = 1u128 << i;
            dropped_wide.push(b);
            dropped_wide.push(half | b);
            dropped_wide.push(half - b);
            dropped_wide.push(dmax - b);
            if i > 0 {
                dropped_wide.push(half | b | 1);
                dropped_wide.push(b << 1 | b);
            }
        }
    }
    dropped_wide.retain(|d| !dropped.contains(d));
    dropped.sort();
    dropped.dedup();
    dropped_wide.sort();
    dropped_wide.dedup();
    if kept_bits > 0 {
        let max = if kept_bits == 64 { u64::MAX } else { (1u64 << kept_bits) - 1 };
        let top = 1u64 << (kept_bits - 1);
        for v in [0u64, 1, 2, 3, max, max - 1, 0x5555_5555_5555_5555, 0xABCD_EF01_2345_6789] {
            let k = (v & max) | top;
            for &d in &dropped_wide {
                let m: u128 = if shift >= 64 { d } else { ((k as u128) << shift) | d };
                if (m as u64) >> 63 == 1 {
                    out.push(m as u64);
                }
            }
        }
    } else {
        for &d in &dropped_wide {
            if (d as u64) >> 63 == 1 {
                out.push(d as u64);
            }
        }
    }
    for &k in &kept {
        for &d in &dropped {
            let m: u128 = if shift >= 64 { d } else { ((k as u128) << shift) | d };
            let m = m as u64;
            if m >> 63 == 1 {
                out.push(m);
            }
        }
    }
    out.sort();
    out.dedup();
    out
}

pub fn c18(a: &Args) -> (Stats, String) {
    let t = Timer::new();
    let mut st = Stats::default();
    // mask helpers, complete
    for n in 0..=64u64 {
        st.calls += 1;
        st.cases += 1;
        if let Some(m) = mask_ok(n) {
            st.violation(api_violation("mask-helper", "-", format!("mask helpers at width {}", n), m, "definition".into(), vec!["replay-c18".into(), "mask".into(), n.to_string()]));
        }
    }
    // every biased exponent in the callers' range; one job per exponent
    let mut exps: Vec<(u8, i32)> = Vec::new();
    for e in -63..=2100 {
        exps.push((M64, e));
    }
    for e in -63..=320 {
        exps.push((M32, e));
    }
    let dummy: Vec<Job> = exps.iter().map(|_| -> Job { Box::new(|_e: &mut fam::Emit| {}) }).collect();
    let thorough = a.thorough;
    let st2 = run_jobs(
        &dummy,
        |_s, _j, _c| {},
        |st, j| {
            let (m, exp) = exps[j];
            let f = if m == M64 { F64 } else { F32 };
            // number of dropped bits for this exponent
            let mantissa_shift = 64 - f.mant_bits() as i32 - 1;
            let shift = if -exp >= mantissa_shift { (-exp + 1).min(64) } else { mantissa_shift };
            for mant in c18_mants(shift as u32, thorough) {
                for mode in 0..3u8 {
                    st.cases += 1;
                    st.nontrivial += 1;
                    if m == M64 {
                        c18_one::<f64>(st, mant, exp, mode);
                    } else {
                        c18_one::<f32>(st, mant, exp, mode);
                    }
                }
            }
        },
    );
    st.merge(st2);
    st.sample("round::<f64>(mant=0xfffffffffffff800, exp=1075, nearest-even)".into());
    st.sample("round::<f32>(mant=0x8000000000000000, exp=-63, nearest-even+sticky)".into());
    st.sample("lower_n_mask(64), lower_n_halfway(0), nth_bit(63)".into());
    (st, format!("\"families\":[{{\"family\":\"every biased exponent x kept/dropped bit patterns x 3 rounding closures; mask helpers 0..=64\",\"wall_s\":{:.2}}}]", t.secs()))
}

// ---------------------------------------------------------------------------
// C17 Float field helpers
// ---------------------------------------------------------------------------

fn c17_check<F: RF>(bits: u64) -> Option<String> {
    let f = F::FMT;
    let r = catch_unwind(|| {
        let x = F::from_bits(bits);
        let mut bad: Vec<String> = Vec::new();
        if Float::to_bits(x) != bits {
            bad.push(format!("to_bits(from_bits({:#x})) = {:#x}", bits, Float::to_bits(x)));
        }
        let sign = bits >> (f.mant_bits() + f.ebits);
        let mag = bits & ((1u64 << (f.mant_bits() + f.ebits)) - 1);
        let be = mag >> f.mant_bits();
        let frac = mag & ((1u64 << f.mant_bits()) - 1);
        let finite = be != (1u64 << f.ebits) - 1;
        if x.is_denormal() != (be == 0) {
            bad.push(format!("is_denormal = {} but exponent field = {}", x.is_denormal(), be));
        }
        if finite {
            let (m, e) = f.decode(mag);
            if x.mantissa() != m {
                bad.push(format!("mantissa() = {:#x} want {:#x}", x.mantissa(), m));
            }
            // mantissa * 2^exponent must equal the magnitude: compare against the canonical decomposition
            if m != 0 && x.exponent() != e {
                bad.push(format!("exponent() = {} want {}", x.exponent(), e));
            }
            if m == 0 && x.exponent() != f.emin_ulp() {
                bad.push(format!("exponent() of zero = {} want {}", x.exponent(), f.emin_ulp()));
            }
            if sign == 0 {
                let b = minimal_lexical::slow::b(x);
                if b.mant != m || (m != 0 && b.exp != e) {
                    bad.push(format!("slow::b = ({:#x},{}) want ({:#x},{})", b.mant, b.exp, m, e));
                }
                let bh = minimal_lexical::slow::bh(x);
                if bh.mant != 2 * m + 1 || bh.exp != x.exponent() - 1 {
                    bad.push(format!("slow::bh = ({:#x},{}) want ({:#x},{})", bh.mant, bh.exp, 2 * m + 1, x.exponent() - 1));
                }
            }
        }
        if sign == 0 {
            // packing (biased exponent, fraction)
            let y = extended_to_float::<F>(ExtendedFloat { mant: frac, exp: be as i32 });
            if Float::to_bits(y) != mag {
                bad.push(format!("extended_to_float(frac={:#x}, exp={}) = {:#x} want {:#x}", frac, be, Float::to_bits(y), mag));
            }
        }
        bad
    });
    match r {
        Ok(b) if b.is_empty() => None,
        Ok(b) => Some(b.join("; ")),
        Err(e) => Some(format!("panic: {}", real::panic_msg(e))),
    }
}

pub fn replay_c17(rest: &[String]) -> ! {
    let bits: u64 = rest[1].parse().unwrap();
    let r = if rest[0] == "f32" { c17_check::<f32>(bits) } else { c17_check::<f64>(bits) };
    println!("REPLAY cfg={} Float helpers on {} bits {:#x}: {:?} ok={}", real::cfg_name(), rest[0], bits, r, r.is_none());
    std::process::exit(if r.is_none() { 0 } else { 1 })
}

pub fn c17(a: &Args) -> (Stats, String) {
    let t = Timer::new();
    // f32: all 2^32 patterns in 4096 jobs
    let dummy: Vec<Job> = (0..4096).map(|_| -> Job { Box::new(|_e: &mut fam::Emit| {}) }).collect();
    let mut st = run_jobs(
        &dummy,
        |_s, _j, _c| {},
        |st, j| {
            let lo = (j as u64) << 20;
            for bits in lo..lo + (1 << 20) {
                st.calls += 1;
                if let Some(m) = c17_check::<f32>(bits) {
                    st.violation(api_violation("float-helper", "f32", format!("f32 bit pattern {:#010x}", bits), m, "IEEE-754 decomposition".into(), vec!["replay-c17".into(), "f32".into(), bits.to_string()]));
                }
            }
            st.cases += 1 << 20;
            st.nontrivial += 1 << 20;
        },
    );
    let f32_wall = t.secs();
    // f64: all exponent fields x signs x fraction patterns; low 20 bits exhaustively for fields 0, 1, 2046, 2047
    let t = Timer::new();
    let mut fr: Vec<u64> = vec![0, (1u64 << 52) - 1, 0x5555_5555_5555_5 & ((1 << 52) - 1), 0xAAAA_AAAA_AAAA_A & ((1 << 52) - 1)];
    for k in 0..52 {
        fr.push(1u64 << k);
        fr.push((1u64 << k) - 1);
        fr.push(((1u64 << 52) - 1) ^ ((1u64 << k) - 1));
    }
    // round 9: every pair of fraction bits, and fractions whose high 20 bits and low 32 bits are related (equal, complementary,
    // shifted copies) - value-dependent shortcuts that work on the two 32-bit halves of the pattern confuse exactly those
    for i in 0..52 {
        for k in 0..i {
            fr.push((1u64 << i) | (1u64 << k));
        }
    }
    let mut vs: Vec<u64> = vec![1, 2, 3, 0xFFFFF, 0x55555, 0xAAAAA, 0xABCDE, 0x80001];
    for k in 0..20 {
        vs.push(1u64 << k);
        vs.push((1u64 << k) - 1);
    }
    for &v in &vs {
        let v = v & 0xFFFFF;
        for lo in [v, !v & 0xFFFF_FFFF, v << 12, v << 6, (v << 12) | v, v ^ 1, v.wrapping_add(1) & 0xFFFF_FFFF, 0x1_0000_0000 - v.max(1)] {
            fr.push((v << 32) | (lo & 0xFFFF_FFFF));
        }
    }
    if a.thorough {
        let mut s = a.seed ^ 0xC17;
        for _ in 0..4096 {
            fr.push(fam::splitmix(&mut s) & ((1 << 52) - 1));
        }
    }
    fr.sort();
    fr.dedup();
    let fr = std::sync::Arc::new(fr);
    let dummy: Vec<Job> = (0..2048 + 64).map(|_| -> Job { Box::new(|_e: &mut fam::Emit| {}) }).collect();
    let thorough17 = a.thorough;
    let st2 = run_jobs(
        &dummy,
        |_s, _j, _c| {},
        |st, j| {
            let mut one = |st: &mut Stats, bits: u64| {
                st.calls += 1;
                st.cases += 1;
                st.nontrivial += 1;
                if let Some(m) = c17_check::<f64>(bits) {
                    st.violation(api_violation("float-helper", "f64", format!("f64 bit pattern {:#018x}", bits), m, "IEEE-754 decomposition".into(), vec!["replay-c17".into(), "f64".into(), bits.to_string()]));
                }
            };
            if j < 2048 {
                for sign in 0..2u64 {
                    for &f in fr.iter() {
                        one(st, (sign << 63) | ((j as u64) << 52) | f);
                    }
                }
                if thorough17 || j % 8 == 7 || j < 3 || j > 2044 {
                    // complete sweeps of the low 16 and of the high 16 fraction bits (thorough: in every exponent field;
                    // quick: in every 8th field and the three at either end)
                    for sign in 0..2u64 {
                        for w in 0..(1u64 << 16) {
                            one(st, (sign << 63) | ((j as u64) << 52) | w);
                            one(st, (sign << 63) | ((j as u64) << 52) | (w << 36));
                        }
                    }
                }
            } else {
                let k = j - 2048; // 64 jobs: 4 fields x 16 chunks of the low 20 bits
                let field = [0u64, 1, 2046, 2047][k / 16];
                let c = (k % 16) as u64;
                for low in (c << 16)..((c + 1) << 16) {
                    one(st, (field << 52) | low);
                    one(st, (1u64 << 63) | (field << 52) | low);
                }
            }
        },
    );
    st.merge(st2);
    st.sample("f32 bit pattern 0x00000001 (min subnormal)".into());
    st.sample("f32 bit pattern 0xff800000 (-inf)".into());
    st.sample("f64 bit pattern 0x0010000000000000 (min normal)".into());
    (
        st,
        format!(
            "\"families\":[{{\"family\":\"all 2^32 f32 bit patterns\",\"wall_s\":{:.2}}},{{\"family\":\"f64: 2048 exponent fields x 2 signs x {} fraction patterns + low-20-bit sweeps of fields 0,1,2046,2047\",\"wall_s\":{:.2}}}]",
            f32_wall,
            fr.len(),
            t.secs()
        ),
    )
}
