//! C12 (big-integer operations vs naturals), C13 (vector histories vs a reference sequence),
//! C14 (power constants vs their definitions).

use crate::real;
use crate::run::{api_violation, run_jobs, Stats, Timer};
use crate::Args;
use minimal_lexical::bigint::{self, Bigint, VecType, BIGINT_LIMBS};
use mlxcore::families::{self as fam, Job};
use mlxcore::nat::{pow5, Nat};
use std::cmp::Ordering;
use std::panic::{catch_unwind, AssertUnwindSafe};

const HEAP: bool = cfg!(feature = "alloc");

fn cap() -> usize {
    BIGINT_LIMBS
}

fn mk(limbs: &[u64]) -> Option<VecType> {
    VecType::try_from(limbs)
}

fn enc(l: &[u64]) -> String {
    if l.is_empty() {
        return "-".into();
    }
    let mut o = String::new();
    let mut i = 0;
    while i < l.len() {
        let mut j = i;
        while j < l.len() && l[j] == l[i] {
            j += 1;
        }
        if !o.is_empty() {
            o.push(',');
        }
        o.push_str(&format!("{:x}*{}", l[i], j - i));
        i = j;
    }
    o
}
fn dec(s: &str) -> Vec<u64> {
    let mut v = Vec::new();
    if s == "-" {
        return v;
    }
    for p in s.split(',') {
        let (a, b) = p.split_once('*').unwrap();
        let a = u64::from_str_radix(a, 16).unwrap();
        let b: usize = b.parse().unwrap();
        v.resize(v.len() + b, a);
    }
    v
}

pub const LIMB_VALUES: [u64; 10] = [
    0,
    1,
    2,
    0xFFFF_FFFF,
    0x1_0000_0000,
    1 << 63,
    u64::MAX,
    0xAAAA_AAAA_AAAA_AAAA,
    7450580596923828125,  // 5^27
    10000000000000000000, // 10^19
];

/// The LIMBS operand family (normalised and not).
pub fn limbs_family() -> Vec<Vec<u64>> {
    let l = &LIMB_VALUES;
    let mut out: Vec<Vec<u64>> = vec![vec![]];
    for &a in l {
        out.push(vec![a]);
        for &b in l {
            out.push(vec![a, b]);
            for &c in l {
                out.push(vec![a, b, c]);
            }
        }
    }
    let c = cap();
    let mut lens = vec![4usize, 5, 6, 30, 31, 32, c - 2, c - 1, c];
    lens.sort();
    lens.dedup();
    for &n in &lens {
        for &bg in l {
            out.push(vec![bg; n]);
            for &fg in l {
                if fg == bg {
                    continue;
                }
                for pos in 0..n {
                    let mut v = vec![bg; n];
                    v[pos] = fg;
                    out.push(v);
                }
            }
        }
    }
    out
}

fn is_norm(l: &[u64]) -> bool {
    l.last().map_or(true, |&x| x != 0)
}

/// Outcome of one checked operation: None = fine, Some(description) = violation.
type Out = Option<String>;

fn val(v: &VecType) -> Nat {
    Nat::from_limbs(v)
}

/// Judge an in-place operation `op` on `x` whose exact result is `want`.
/// Stack: must succeed iff `want` fits the capacity. Heap: exact or None.
fn judge_inplace(name: &str, x: &[u64], want: &Nat, op: impl FnOnce(&mut VecType) -> Option<()>) -> Out {
    let Some(mut v) = mk(x) else { return Some(format!("{}: cannot construct operand of {} limbs", name, x.len())) };
    let r = catch_unwind(AssertUnwindSafe(|| {
        let r = op(&mut v);
        (r, v)
    }));
    let (r, v) = match r {
        Ok(x) => x,
        Err(e) => return Some(format!("{}: panic: {}", name, real::panic_msg(e))),
    };
    if v.len() > v.capacity() {
        return Some(format!("{}: length {} exceeds capacity {}", name, v.len(), v.capacity()));
    }
    let fits = want.l.len() <= cap();
    match r {
        Some(()) => {
            if val(&v) != *want {
                return Some(format!("{}: wrong value: got {} limbs {}, want {}", name, v.len(), enc(&v), enc(&want.l)));
            }
            if !HEAP && !fits {
                return Some(format!("{}: result needs {} limbs > capacity but success was reported", name, want.l.len()));
            }
            None
        },
        None => {
            // Both back-ends: for vectors built with the crate's own constructors (which reserve the design
            // capacity) a result within BIGINT_LIMBS limbs must be returned; beyond it the stack back-end must
            // and the heap back-end may report failure. The property quantifies over non-zero, normalised operands.
            if fits && is_norm(x) && !x.is_empty() {
                return Some(format!("{}: reported overflow but the exact result needs only {} limbs", name, want.l.len()));
            }
            None
        },
    }
}

// ---- single-operation checkers (used by enumeration and by replay) --------------------------------

fn op_small_add(x: &[u64], y: u64) -> Out {
    let mut w = Nat::from_limbs(x);
    w.add_small(y);
    // an unnormalised operand keeps its length: success does not need more limbs than max(len, needed)
    judge_inplace("small_add", x, &w, |v| bigint::small_add(v, y))
}
fn op_small_mul(x: &[u64], y: u64) -> Out {
    let mut w = Nat::from_limbs(x);
    w.mul_small(y);
    judge_inplace("small_mul", x, &w, |v| bigint::small_mul(v, y))
}
fn op_small_add_from(x: &[u64], y: u64, start: usize) -> Out {
    let w = Nat::from_limbs(x).add(&Nat::from_u64(y).shl(64 * start as u64));
    judge_inplace("small_add_from", x, &w, |v| bigint::small_add_from(v, y, start))
}
fn op_large_add_from(x: &[u64], y: &[u64], start: usize) -> Out {
    let w = Nat::from_limbs(x).add(&Nat::from_limbs(y).shl(64 * start as u64));
    // the operation sizes by length: an unnormalised y may legitimately not fit
    if !is_norm(y) && y.len() + start > cap() {
        return None;
    }
    judge_inplace("large_add_from", x, &w, |v| bigint::large_add_from(v, y, start))
}
fn op_large_mul(x: &[u64], y: &[u64]) -> Out {
    let w = Nat::from_limbs(x).mul(&Nat::from_limbs(y));
    judge_inplace("large_mul", x, &w, |v| bigint::large_mul(v, y))
}
fn op_long_mul(x: &[u64], y: &[u64]) -> Out {
    let want = Nat::from_limbs(x).mul(&Nat::from_limbs(y));
    let r = catch_unwind(|| bigint::long_mul(x, y));
    let r = match r {
        Ok(r) => r,
        Err(e) => return Some(format!("long_mul: panic: {}", real::panic_msg(e))),
    };
    let fits = want.l.len() <= cap();
    match r {
        Some(v) => {
            if val(&v) != want {
                return Some(format!("long_mul: wrong value: got {} want {}", enc(&v), enc(&want.l)));
            }
            if !v.is_normalized() {
                return Some("long_mul: result not normalised".into());
            }
            if !HEAP && !fits {
                return Some("long_mul: overflow not reported".into());
            }
            None
        },
        None => {
            if fits {
                Some(format!("long_mul: reported overflow but the product needs only {} limbs", want.l.len()))
            } else {
                None
            }
        },
    }
}
fn op_pow(x: &[u64], n: u32) -> Out {
    let w = Nat::from_limbs(x).mul(&pow5(n));
    judge_inplace("pow5", x, &w, |v| bigint::pow(v, n))
}
fn op_bigint_pow(x: u64, base: u32, n: u32) -> Out {
    let mut want = Nat::from_u64(x);
    if base % 5 == 0 {
        want = want.mul(&pow5(n));
    }
    if base % 2 == 0 {
        want = want.shl(n as u64);
    }
    let r = catch_unwind(|| {
        let mut b = Bigint::from_u64(x);
        let r = b.pow(base, n);
        (r, b)
    });
    let (r, b) = match r {
        Ok(x) => x,
        Err(e) => return Some(format!("Bigint::pow: panic: {}", real::panic_msg(e))),
    };
    let fits = want.l.len() <= cap();
    match r {
        Some(()) => {
            if val(&b.data) != want {
                return Some(format!("Bigint::pow({},{}): wrong value", base, n));
            }
            if b.bit_length() as u64 != want.bits() {
                return Some(format!("Bigint::bit_length = {} want {}", b.bit_length(), want.bits()));
            }
            let (h, s) = b.hi64();
            let (wh, ws) = ref_hi64(&want);
            if (h, s) != (wh, ws) {
                return Some(format!("Bigint::hi64 = ({:#x},{}) want ({:#x},{})", h, s, wh, ws));
            }
            if !HEAP && !fits {
                return Some("Bigint::pow: overflow not reported".into());
            }
            None
        },
        None => {
            if fits && x != 0 {
                Some(format!("Bigint::pow({},{}) on {}: reported overflow but the result needs only {} limbs", base, n, x, want.l.len()))
            } else {
                None
            }
        },
    }
}
fn op_shl(x: &[u64], n: usize, which: u8) -> Out {
    let w = Nat::from_limbs(x).shl(match which {
        2 => 64 * n as u64,
        _ => n as u64,
    });
    match which {
        0 => judge_inplace("shl", x, &w, |v| bigint::shl(v, n)),
        1 => judge_inplace("shl_bits", x, &w, |v| bigint::shl_bits(v, n)),
        _ => judge_inplace("shl_limbs", x, &w, |v| bigint::shl_limbs(v, n)),
    }
}
fn ref_hi64(n: &Nat) -> (u64, bool) {
    let b = n.bits();
    if b == 0 {
        return (0, false);
    }
    if b <= 64 {
        (n.l[0] << (64 - b), false)
    } else {
        (n.shr(b - 64).l[0], n.any_below(b - 64))
    }
}
fn op_unary(x: &[u64]) -> Out {
    let Some(mut v) = mk(x) else { return Some("cannot construct operand".into()) };
    let n = Nat::from_limbs(x);
    if bigint::is_normalized(&v) != is_norm(x) {
        return Some(format!("is_normalized = {} want {}", bigint::is_normalized(&v), is_norm(x)));
    }
    if is_norm(x) {
        if bigint::bit_length(&v) as u64 != n.bits() {
            return Some(format!("bit_length = {} want {}", bigint::bit_length(&v), n.bits()));
        }
        let got = bigint::hi64(&v);
        if got != ref_hi64(&n) {
            return Some(format!("hi64 = ({:#x},{}) want {:?}", got.0, got.1, ref_hi64(&n)));
        }
    }
    bigint::normalize(&mut v);
    if !bigint::is_normalized(&v) || val(&v) != n || v.len() != n.l.len() {
        return Some(format!("normalize: got {} limbs, want {} (value preserved: {})", v.len(), n.l.len(), val(&v) == n));
    }
    None
}
fn op_compare(x: &[u64], y: &[u64]) -> Out {
    let (Some(a), Some(b)) = (mk(x), mk(y)) else { return Some("cannot construct operand".into()) };
    let want = Nat::from_limbs(x).cmp(&Nat::from_limbs(y));
    let got = bigint::compare(&a, &b);
    if got != want {
        return Some(format!("compare = {:?} want {:?}", got, want));
    }
    if a.cmp(&b) != want || a.partial_cmp(&b) != Some(want) {
        return Some(format!("Ord/PartialOrd = {:?}/{:?} want {:?}", a.cmp(&b), a.partial_cmp(&b), want));
    }
    if (a == b) != (want == Ordering::Equal) {
        return Some(format!("== gives {} but numeric comparison is {:?}", a == b, want));
    }
    if (a < b) != (want == Ordering::Less) || (a > b) != (want == Ordering::Greater) {
        return Some("operators < / > disagree with numeric comparison".into());
    }
    None
}
fn op_from_u64(x: u64) -> Out {
    let v = bigint::from_u64(x);
    if val(&v) != Nat::from_u64(x) || !v.is_normalized() {
        return Some(format!("from_u64({}) = {}", x, enc(&v)));
    }
    let b = Bigint::from_u64(x);
    if val(&b.data) != Nat::from_u64(x) {
        return Some(format!("Bigint::from_u64({})", x));
    }
    None
}

/// The word-level helpers behind `hi64` (`u32_to_hi64_{1,2,3}`, `u64_to_hi64_{1,2}`): top 64 bits of the words read as one
/// big-endian integer, and whether non-zero bits were dropped. The most significant word is non-zero (normalised input).
fn op_hi64_words(kind: u64, a: u64, b: u64, c: u64) -> Out {
    let refr = |x: u128| -> (u64, bool) {
        let n = x << x.leading_zeros();
        ((n >> 64) as u64, n as u64 != 0)
    };
    let (got, want, name) = match kind {
        1 => (bigint::u32_to_hi64_1(a as u32), { let x = a as u32 as u64; (x << x.leading_zeros(), false) }, "u32_to_hi64_1"),
        2 => (bigint::u32_to_hi64_2(a as u32, b as u32), { let x = ((a as u32 as u64) << 32) | b as u32 as u64; (x << x.leading_zeros(), false) }, "u32_to_hi64_2"),
        3 => (bigint::u32_to_hi64_3(a as u32, b as u32, c as u32), refr(((a as u32 as u128) << 64) | ((b as u32 as u128) << 32) | c as u32 as u128), "u32_to_hi64_3"),
        4 => (bigint::u64_to_hi64_1(a), (a << a.leading_zeros(), false), "u64_to_hi64_1"),
        _ => (bigint::u64_to_hi64_2(a, b), refr(((a as u128) << 64) | b as u128), "u64_to_hi64_2"),
    };
    if got != want {
        return Some(format!("{}({:#x}, {:#x}, {:#x}) = {:x?}, want {:x?}", name, a, b, c, got, want));
    }
    None
}

/// Dispatch by name (enumeration records the argv, replay re-executes it).
fn c12_exec(argv: &[String]) -> Out {
    let n = |i: usize| -> u64 { argv[i].parse().unwrap() };
    match argv[0].as_str() {
        "small_add" => op_small_add(&dec(&argv[1]), n(2)),
        "small_mul" => op_small_mul(&dec(&argv[1]), n(2)),
        "small_add_from" => op_small_add_from(&dec(&argv[1]), n(2), n(3) as usize),
        "large_add_from" => op_large_add_from(&dec(&argv[1]), &dec(&argv[2]), n(3) as usize),
        "large_mul" => op_large_mul(&dec(&argv[1]), &dec(&argv[2])),
        "long_mul" => op_long_mul(&dec(&argv[1]), &dec(&argv[2])),
        "pow" => op_pow(&dec(&argv[1]), n(2) as u32),
        "bigint_pow" => op_bigint_pow(n(1), n(2) as u32, n(3) as u32),
        "shl" => op_shl(&dec(&argv[1]), n(2) as usize, 0),
        "shl_bits" => op_shl(&dec(&argv[1]), n(2) as usize, 1),
        "shl_limbs" => op_shl(&dec(&argv[1]), n(2) as usize, 2),
        "unary" => op_unary(&dec(&argv[1])),
        "compare" => op_compare(&dec(&argv[1]), &dec(&argv[2])),
        "from_u64" => op_from_u64(n(1)),
        "hi64_words" => op_hi64_words(n(1), n(2), n(3), n(4)),
        _ => Some(format!("unknown op {}", argv[0])),
    }
}

pub fn replay_c12(rest: &[String]) -> ! {
    let r = catch_unwind(|| c12_exec(rest)).unwrap_or_else(|e| Some(format!("panic: {}", real::panic_msg(e))));
    println!("REPLAY cfg={} bigint {:?} -> {:?} ok={}", real::cfg_name(), rest, r, r.is_none());
    std::process::exit(if r.is_none() { 0 } else { 1 })
}

fn run_op(st: &mut Stats, argv: Vec<String>) {
    crate::run::trace_op("OP", &argv.join(" "));
    st.calls += 1;
    st.cases += 1;
    st.nontrivial += 1;
    *st.by_fam.entry(op_label(&argv[0])).or_insert(0) += 1;
    let r = catch_unwind(|| c12_exec(&argv)).unwrap_or_else(|e| Some(format!("panic: {}", real::panic_msg(e))));
    if let Some(m) = r {
        let mut full = vec!["replay-c12".to_string()];
        full.extend(argv.iter().cloned());
        st.violation(api_violation("bigint-op", "-", format!("bigint::{} {}", argv[0], argv[1..].join(" ")), m, "the exact result on naturals / a reported overflow".into(), full));
    }
}

fn op_label(s: &str) -> &'static str {
    match s {
        "small_add" => "small_add",
        "small_mul" => "small_mul",
        "small_add_from" => "small_add_from",
        "large_add_from" => "large_add_from",
        "large_mul" => "large_mul",
        "long_mul" => "long_mul",
        "pow" => "pow",
        "bigint_pow" => "bigint_pow",
        "shl" => "shl",
        "shl_bits" => "shl_bits",
        "shl_limbs" => "shl_limbs",
        "unary" => "unary(normalize,is_normalized,bit_length,hi64)",
        "compare" => "compare/Ord/Eq",
        "hi64_words" => "u32_to_hi64_*/u64_to_hi64_*",
        _ => "from_u64",
    }
}

fn limbs_of(n: &Nat) -> Vec<u64> {
    let mut v: Vec<u64> = Vec::new();
    let mut i = 0u64;
    let bits = n.bits();
    while i * 64 < bits.max(1) {
        let mut w = 0u64;
        for b in 0..64u64 {
            if n.bit(i * 64 + b) {
                w |= 1 << b;
            }
        }
        v.push(w);
        i += 1;
    }
    while v.last() == Some(&0) {
        v.pop();
    }
    v
}

/// QUOT: X = ceil(T / 5^k) for special targets T (zero / all-ones limbs, a zero or all-ones limb directly below a small
/// or large top limb), so that the *product* X * 5^k - an intermediate of `pow` whichever way the steps are grouped, and
/// the result of `large_mul` by the tabulated powers - has those special limbs although X itself looks generic.
/// (Round 8, C12-P/Q: a multiplication by a fixed constant turns special operands into generic intermediates; this is
/// the inverse image.)
fn quot_family() -> Vec<(Vec<u64>, u32)> {
    let mut out: Vec<(Vec<u64>, u32)> = Vec::new();
    for k in [27u32, 54, 81, 108, 135, 162, 270] {
        let p = pow5(k);
        let pl = ((p.bits() + 63) / 64) as usize;
        for extra in 1..=4usize {
            let len = pl + extra;
            for top in [1u64, 5, 1 << 32, u64::MAX] {
                for pat in 0..4u8 {
                    let (bg, below) = match pat {
                        0 => (0u64, 0u64),
                        1 => (u64::MAX, u64::MAX),
                        2 => (u64::MAX, 0),
                        _ => (0, u64::MAX),
                    };
                    let mut t = vec![bg; len];
                    t[len - 2] = below;
                    t[len - 1] = top;
                    let tn = Nat::from_limbs(&t);
                    let (mut q, r) = tn.divrem(&p);
                    if !r.is_zero() {
                        q.add_small(1);
                    }
                    let x = limbs_of(&q);
                    if !x.is_empty() {
                        out.push((x, k));
                    }
                }
            }
        }
    }
    out
}

pub fn c12(a: &Args) -> (Stats, String) {
    let t = Timer::new();
    let ops = std::sync::Arc::new(limbs_family());
    let c = cap();
    // the 400-operand sub-family for binary operations: all <= 2-limb vectors + constant and selected one-hot vectors
    let mut sub: Vec<Vec<u64>> = ops.iter().filter(|v| v.len() <= 2).cloned().collect();
    for v in ops.iter() {
        if v.len() > 3 {
            let bg = v[0];
            let diff: Vec<usize> = (0..v.len()).filter(|&i| v[i] != bg).collect();
            let keep = diff.is_empty() || diff[0] == v.len() - 1 || (diff[0] == v.len() / 2 && (bg == 0 || bg == u64::MAX)) || (a.thorough && (diff[0] == 0 || diff[0] == 1));
            if keep && (a.thorough || matches!(bg, 0 | 1 | u64::MAX) || diff.is_empty()) {
                sub.push(v.clone());
            }
        }
    }
    let sub: Vec<Vec<u64>> = sub.into_iter().filter(|v| is_norm(v)).collect();
    let sub = std::sync::Arc::new(sub);
    let nops = ops.len();
    let nsub = sub.len();
    // job layout: [0, nchunks) unary+scalar ops over the whole family; then binary ops rows; then pow; then shifts
    let chunk = 256;
    let nchunks = (nops + chunk - 1) / chunk;
    let quot = std::sync::Arc::new(quot_family());
    let nquot = quot.len();
    let njobs = nchunks + nsub + 1 + 1 + 1;
    let dummy: Vec<Job> = (0..njobs).map(|_| -> Job { Box::new(|_e: &mut fam::Emit| {}) }).collect();
    let thorough = a.thorough;
    let st = run_jobs(
        &dummy,
        |_s, _j, _c| {},
        |st, j| {
            let s = |x: &str| x.to_string();
            if j < nchunks {
                for x in &ops[j * chunk..((j + 1) * chunk).min(nops)] {
                    let e = enc(x);
                    run_op(st, vec![s("unary"), e.clone()]);
                    for &y in &LIMB_VALUES {
                        run_op(st, vec![s("small_add"), e.clone(), y.to_string()]);
                        run_op(st, vec![s("small_mul"), e.clone(), y.to_string()]);
                    }
                    for start in 0..=x.len() {
                        if x.len() > 6 && !(start <= 1 || start + 2 >= x.len() || start == x.len() / 2) {
                            continue;
                        }
                        for y in [1u64, u64::MAX] {
                            run_op(st, vec![s("small_add_from"), e.clone(), y.to_string(), start.to_string()]);
                        }
                    }
                    if is_norm(x) {
                        for n in 1..=63usize {
                            if x.len() > 6 && !(n <= 2 || n >= 62 || n == 32) {
                                continue;
                            }
                            run_op(st, vec![s("shl_bits"), e.clone(), n.to_string()]);
                        }
                    }
                }
            } else if j < nchunks + nsub {
                let x = &sub[j - nchunks];
                let ex = enc(x);
                for y in sub.iter() {
                    let ey = enc(y);
                    run_op(st, vec![s("compare"), ex.clone(), ey.clone()]);
                    if !x.is_empty() && !y.is_empty() {
                        run_op(st, vec![s("long_mul"), ex.clone(), ey.clone()]);
                        run_op(st, vec![s("large_mul"), ex.clone(), ey.clone()]);
                    }
                    for start in [0usize, 1, x.len().saturating_sub(1), x.len(), x.len() + 1] {
                        run_op(st, vec![s("large_add_from"), ex.clone(), ey.clone(), start.to_string()]);
                    }
                }
            } else if j == nchunks + nsub {
                // pow: every n in 0..=1200 on 1 and on a few multi-limb operands; Bigint::pow(2|5|10, n)
                let nmax = if thorough { 1800 } else { 1200 };
                for n in 0..=nmax {
                    run_op(st, vec![s("pow"), enc(&[1]), n.to_string()]);
                    run_op(st, vec![s("pow"), enc(&[u64::MAX, u64::MAX, 1]), n.to_string()]);
                    run_op(st, vec![s("pow"), enc(&vec![u64::MAX; 30]), n.to_string()]);
                    for base in [2u32, 5, 10] {
                        run_op(st, vec![s("bigint_pow"), s("1"), base.to_string(), n.to_string()]);
                        run_op(st, vec![s("bigint_pow"), u64::MAX.to_string(), base.to_string(), n.to_string()]);
                    }
                }
                for &v in &LIMB_VALUES {
                    run_op(st, vec![s("from_u64"), v.to_string()]);
                }
                // the word-level helpers of hi64, for 32-bit and 64-bit words (the 32-bit ones are exposed on every target)
                let w32: [u64; 9] = [0, 1, 2, 0x7FFF_FFFF, 0x8000_0000, 0xFFFF_FFFF, 0xAAAA_AAAA, 1220703125, 0x0001_0000];
                for &a in &w32[1..] {
                    run_op(st, vec![s("hi64_words"), s("1"), a.to_string(), s("0"), s("0")]);
                    for &b in &w32 {
                        run_op(st, vec![s("hi64_words"), s("2"), a.to_string(), b.to_string(), s("0")]);
                        for &c3 in &w32 {
                            run_op(st, vec![s("hi64_words"), s("3"), a.to_string(), b.to_string(), c3.to_string()]);
                        }
                    }
                }
                for &a in &LIMB_VALUES {
                    if a == 0 {
                        continue;
                    }
                    run_op(st, vec![s("hi64_words"), s("4"), a.to_string(), s("0"), s("0")]);
                    for &b in &LIMB_VALUES {
                        run_op(st, vec![s("hi64_words"), s("5"), a.to_string(), b.to_string(), s("0")]);
                    }
                }
            } else if j == nchunks + nsub + 2 {
                // QUOT: operands whose product with a power of five the algorithms multiply by is special
                let p135: Vec<u64> = limbs_of(&pow5(135));
                for (x, k) in quot.iter() {
                    let ex = enc(x);
                    for n in [*k, *k + 1, *k + 26, *k + 27, *k + 54] {
                        run_op(st, vec![s("pow"), ex.clone(), n.to_string()]);
                    }
                    let pk = limbs_of(&pow5(*k));
                    run_op(st, vec![s("large_mul"), ex.clone(), enc(&pk)]);
                    run_op(st, vec![s("long_mul"), enc(&pk), ex.clone()]);
                    // the same operand below one more low limb, times 5^135 (row-wise and top-down accumulation both cross the special limbs)
                    for y0 in [1u64, 93, 94, u64::MAX] {
                        let mut y = vec![y0];
                        y.extend_from_slice(x);
                        let ey = enc(&y);
                        run_op(st, vec![s("pow"), ey.clone(), k.to_string()]);
                        run_op(st, vec![s("pow"), ey.clone(), (*k + 135).to_string()]);
                        run_op(st, vec![s("long_mul"), enc(&p135), ey.clone()]);
                    }
                }
            } else {
                // shl for every n in 0..=64*cap on three operands; shl_limbs 1..=cap+1 on the normalised sub-family
                for n in 0..=64 * c + 1 {
                    for x in [vec![1u64], vec![u64::MAX], vec![u64::MAX, 1 << 63, 5]] {
                        run_op(st, vec![s("shl"), enc(&x), n.to_string()]);
                    }
                }
                for x in sub.iter() {
                    for n in 1..=c + 1 {
                        if x.len() > 3 && !(n <= 2 || n + x.len() + 2 >= c) {
                            continue;
                        }
                        run_op(st, vec![s("shl_limbs"), enc(x), n.to_string()]);
                    }
                }
            }
        },
    );
    let mut st = st;
    st.sample(format!("small_mul {} 18446744073709551615", enc(&vec![u64::MAX; c])));
    st.sample("long_mul ffffffffffffffff*31 ffffffffffffffff*31  (product one limb over capacity)".into());
    st.sample("pow 1*1 1200 ; shl ffffffffffffffff*1 3905 ; hi64 on one-hot vectors".into());
    (
        st,
        format!(
            "\"backend\":\"{}\",\"capacity\":{},\"operands\":{},\"binary_subfamily\":{},\"quot_operands\":{},\"families\":[{{\"family\":\"LIMBS x every bigint operation + QUOT (inverse images of special products under 5^27..5^270)\",\"wall_s\":{:.2}}}]",
            if HEAP { "heap" } else { "stack" },
            c,
            nops,
            nsub,
            nquot,
            t.secs()
        ),
    )
}

// ---------------------------------------------------------------------------
// C13 histories
// ---------------------------------------------------------------------------

#[derive(Clone, Copy, Debug, PartialEq)]
enum Op {
    New,
    FromU64(u64),
    TryFrom(usize),
    Push(u64),
    Pop,
    Extend(usize),
    Resize(usize, u64),
    Normalize,
    AddSmall(u64),
    MulSmall(u64),
    CloneIt,
}

fn ctors() -> Vec<Op> {
    let c = cap();
    vec![Op::New, Op::FromU64(0), Op::FromU64(1), Op::FromU64(u64::MAX), Op::TryFrom(0), Op::TryFrom(1), Op::TryFrom(c - 1), Op::TryFrom(c), Op::TryFrom(c + 1)]
}
fn full_alphabet() -> Vec<Op> {
    let c = cap();
    let mut v = Vec::new();
    for x in [0, 1, u64::MAX] {
        v.push(Op::Push(x));
    }
    v.push(Op::Pop);
    for n in [0, 1, 2, c / 2, c - 1, c] {
        v.push(Op::Extend(n));
    }
    for n in [0, 1, c / 2, c - 1, c, c + 1] {
        for x in [0, u64::MAX] {
            v.push(Op::Resize(n, x));
        }
    }
    // requests far beyond the capacity, on both sides of the 16-bit length field's range (stack vector only:
    // the heap vector would really allocate them)
    if !HEAP {
        v.push(Op::Resize(65536 + 2, 0));
        v.push(Op::Resize((1usize << 32) + c, u64::MAX));
    }
    // a fill value whose bytes all differ (a byte-wise fill would be visible)
    for n in [2, c / 2 + 1, c] {
        v.push(Op::Resize(n, 0x0123_4567_89AB_CDEF));
    }
    v.push(Op::Normalize);
    for x in [0, 1, u64::MAX] {
        v.push(Op::AddSmall(x));
    }
    for x in [0, 1, u64::MAX] {
        v.push(Op::MulSmall(x));
    }
    v.push(Op::CloneIt);
    v
}
fn core_alphabet() -> Vec<Op> {
    let c = cap();
    vec![
        Op::Push(1),
        Op::Push(u64::MAX),
        Op::Pop,
        Op::Extend(c / 2),
        Op::Extend(c - 1),
        Op::Resize(c, 0x0123_4567_89AB_CDEF),
        Op::Resize(c + 1, 0),
        Op::Resize(1, 0),
        Op::Normalize,
        Op::AddSmall(u64::MAX),
        Op::MulSmall(u64::MAX),
        Op::CloneIt,
    ]
}

/// Content of an extension of length n: distinct, non-zero, position dependent.
fn ext_content(n: usize, salt: usize) -> Vec<u64> {
    (0..n).map(|i| 0x0101_0101_0101_0101u64.wrapping_mul((i + 1 + 7 * salt) as u64) | 1).collect()
}

/// Execute one history on a fresh real vector, comparing with the reference after every step.
fn run_history(ctor: Op, ops: &[Op], steps: &mut u64, cap_fail: &mut u64) -> Option<String> {
    let bound: Option<usize> = if HEAP { None } else { Some(cap()) };
    let fits = |n: usize| bound.map_or(true, |b| n <= b);
    // constructor
    let (mut real, mut model): (VecType, Vec<u64>) = match ctor {
        Op::New => (VecType::new(), vec![]),
        Op::FromU64(x) => (VecType::from_u64(x), if x == 0 { vec![] } else { vec![x] }),
        Op::TryFrom(n) => {
            let content = ext_content(n, 3);
            match VecType::try_from(&content) {
                Some(v) => {
                    if !fits(n) {
                        return Some(format!("try_from({} limbs) succeeded beyond the capacity", n));
                    }
                    (v, content)
                },
                None => {
                    if fits(n) {
                        return Some(format!("try_from({} limbs) failed within the capacity", n));
                    }
                    *cap_fail += 1;
                    return None;
                },
            }
        },
        _ => unreachable!(),
    };
    let mut snaps: Vec<(VecType, Vec<u64>)> = Vec::new();
    let check_state = |real: &VecType, model: &Vec<u64>, what: &str| -> Option<String> {
        if real.len() != model.len() {
            return Some(format!("after {}: len {} want {}", what, real.len(), model.len()));
        }
        if !HEAP && real.len() > real.capacity() {
            return Some(format!("after {}: len {} exceeds capacity {}", what, real.len(), real.capacity()));
        }
        if &real[..] != &model[..] {
            let i = (0..model.len()).find(|&i| real[i] != model[i]).unwrap();
            return Some(format!("after {}: limb {} is {:#x} want {:#x}", what, i, real[i], model[i]));
        }
        if real.is_empty() != model.is_empty() {
            return Some(format!("after {}: is_empty wrong", what));
        }
        if real.is_normalized() != is_norm(model) {
            return Some(format!("after {}: is_normalized = {}", what, real.is_normalized()));
        }
        if is_norm(model) {
            let n = Nat::from_limbs(model);
            if real.hi64() != ref_hi64(&n) {
                return Some(format!("after {}: hi64 = {:?} want {:?}", what, real.hi64(), ref_hi64(&n)));
            }
        }
        None
    };
    if let Some(m) = check_state(&real, &model, &format!("{:?}", ctor)) {
        return Some(m);
    }
    snaps.push((real.clone(), model.clone()));
    for (k, &op) in ops.iter().enumerate() {
        *steps += 1;
        let what = format!("step {} {:?}", k + 1, op);
        let before = model.clone();
        let mut unspecified = false;
        match op {
            Op::Push(x) => {
                let ok = fits(model.len() + 1);
                match real.try_push(x) {
                    Some(()) if ok => model.push(x),
                    None if !ok => *cap_fail += 1,
                    Some(()) => return Some(format!("{}: push succeeded at capacity", what)),
                    None => return Some(format!("{}: push failed below capacity", what)),
                }
            },
            Op::Pop => {
                let r = real.pop();
                let w = model.pop();
                if r != w {
                    return Some(format!("{}: pop returned {:?} want {:?}", what, r, w));
                }
            },
            Op::Extend(n) => {
                let content = ext_content(n, k);
                let ok = fits(model.len() + n);
                match real.try_extend(&content) {
                    Some(()) if ok => model.extend_from_slice(&content),
                    None if !ok => *cap_fail += 1,
                    Some(()) => return Some(format!("{}: extend succeeded beyond capacity", what)),
                    None => return Some(format!("{}: extend failed within capacity", what)),
                }
            },
            Op::Resize(n, x) => {
                let ok = fits(n);
                match real.try_resize(n, x) {
                    Some(()) if ok => model.resize(n, x),
                    None if !ok => *cap_fail += 1,
                    Some(()) => return Some(format!("{}: resize succeeded beyond capacity", what)),
                    None => return Some(format!("{}: resize failed within capacity", what)),
                }
            },
            Op::Normalize => {
                real.normalize();
                while model.last() == Some(&0) {
                    model.pop();
                }
            },
            Op::AddSmall(y) | Op::MulSmall(y) => {
                let mut n = Nat::from_limbs(&model);
                let r = if let Op::AddSmall(_) = op {
                    n.add_small(y);
                    real.add_small(y)
                } else {
                    n.mul_small(y);
                    real.mul_small(y)
                };
                let need = n.l.len().max(model.len());
                match r {
                    Some(()) => {
                        if !fits(need) {
                            return Some(format!("{}: succeeded but the result needs {} limbs", what, need));
                        }
                        // little-endian limbs of the exact result, padded to the old length
                        // (a zero product keeps zero limbs; representation beyond the value is length-preserving)
                        let mut m = n.l.clone();
                        m.resize(need, 0);
                        model = m;
                    },
                    None => {
                        if fits(need) {
                            return Some(format!("{}: failed although the result needs only {} limbs", what, need));
                        }
                        *cap_fail += 1;
                        unspecified = true; // contents unspecified by the property: the branch ends
                    },
                }
            },
            Op::CloneIt => {
                let c = real.clone();
                real = c;
            },
            _ => unreachable!(),
        }
        if unspecified {
            return None;
        }
        let _ = before;
        if let Some(m) = check_state(&real, &model, &what) {
            return Some(m);
        }
        // equality and ordering against snapshots of earlier states
        for (sr, sm) in snaps.iter() {
            if (real == *sr) != (model == *sm) {
                return Some(format!("{}: == against an earlier state gives {} want {}", what, real == *sr, model == *sm));
            }
            if is_norm(&model) && is_norm(sm) {
                let want = Nat::from_limbs(&model).cmp(&Nat::from_limbs(sm));
                if real.cmp(sr) != want || real.partial_cmp(sr) != Some(want) {
                    return Some(format!("{}: cmp/partial_cmp against an earlier state = {:?}/{:?} want {:?}", what, real.cmp(sr), real.partial_cmp(sr), want));
                }
            }
        }
        if snaps.len() < 3 {
            snaps.push((real.clone(), model.clone()));
        }
    }
    None
}

fn hist_string(ci: usize, full: bool, idx: &[usize]) -> String {
    format!("{}:{}:{}", if full { "F" } else { "K" }, ci, idx.iter().map(|i| i.to_string()).collect::<Vec<_>>().join(","))
}

/// LADDER histories (round 8): `k` pushes of position-dependent values, `j` pops, a resize to `r`, then a fixed tail -
/// every length 0..=cap+1 is reached by pushes, left by pops and jumped to by a resize, which the alphabets (lengths
/// 0, 1, 2, cap/2, cap-1, cap, cap+1 only) cannot do within their depth.
fn ladder_ops(k: usize, j: usize, r: usize, f: usize) -> Vec<Op> {
    let vals = [1u64, u64::MAX, 0x0123_4567_89AB_CDEF, 0, 2];
    let mut ops: Vec<Op> = Vec::with_capacity(k + j + 12);
    for i in 0..k {
        ops.push(Op::Push(if i % 5 == 4 { i as u64 + 2 } else { vals[i % 5] }));
    }
    for _ in 0..j {
        ops.push(Op::Pop);
    }
    // fill values: zero, all ones, all-different bytes, and byte-splat values (a `memset` shortcut keyed to a narrower limb would show)
    ops.push(Op::Resize(r, [0u64, u64::MAX, 0x0123_4567_89AB_CDEF, 0xFFFF_FFFF, 0x0101_0101, 0x0101_0101_0101_0101, 0xFF][f % 7]));
    ops.push(Op::CloneIt);
    ops.push(Op::Extend(2));
    ops.push(Op::AddSmall(u64::MAX));
    ops.push(Op::MulSmall(u64::MAX));
    ops.push(Op::Normalize);
    ops.push(Op::Pop);
    ops.push(Op::Push(1));
    ops.push(Op::Resize(r / 2 + 1, 0));
    ops.push(Op::AddSmall(1));
    ops
}

fn exec_hist_string(s: &str) -> (Option<String>, String) {
    let parts: Vec<&str> = s.split(':').collect();
    if parts[0] == "L" {
        let n: Vec<usize> = parts[1..5].iter().map(|x| x.parse().unwrap()).collect();
        let ops = ladder_ops(n[0], n[1], n[2], n[3]);
        let (mut a, mut b) = (0, 0);
        let r = catch_unwind(AssertUnwindSafe(|| run_history(Op::New, &ops, &mut a, &mut b))).unwrap_or_else(|e| Some(format!("panic: {}", real::panic_msg(e))));
        return (r, format!("LADDER: {} pushes, {} pops, resize to {} (fill {}), tail: {:?}", n[0], n[1], n[2], n[3], &ops[n[0] + n[1]..]));
    }
    let alpha = if parts[0] == "F" { full_alphabet() } else { core_alphabet() };
    let ci: usize = parts[1].parse().unwrap();
    let idx: Vec<usize> = if parts[2].is_empty() { vec![] } else { parts[2].split(',').map(|x| x.parse().unwrap()).collect() };
    let ops: Vec<Op> = idx.iter().map(|&i| alpha[i]).collect();
    let ctor = ctors()[ci];
    let (mut a, mut b) = (0, 0);
    let r = catch_unwind(AssertUnwindSafe(|| run_history(ctor, &ops, &mut a, &mut b))).unwrap_or_else(|e| Some(format!("panic: {}", real::panic_msg(e))));
    (r, format!("{:?} then {:?}", ctor, ops))
}

pub fn replay_c13(rest: &[String]) -> ! {
    let (r, desc) = exec_hist_string(&rest[0]);
    println!("REPLAY cfg={} history {} -> {:?} ok={}", real::cfg_name(), desc, r, r.is_none());
    std::process::exit(if r.is_none() { 0 } else { 1 })
}

pub fn c13(a: &Args) -> (Stats, String) {
    let t = Timer::new();
    // `--depths F,K` overrides (used by the slow monitors)
    let (mut dfull, mut dcore) = if a.thorough { (5, 8) } else { (4, 6) };
    if let Some(p) = a.rest.iter().position(|x| x == "--depths") {
        let (x, y) = a.rest[p + 1].split_once(',').unwrap();
        dfull = x.parse().unwrap();
        dcore = y.parse().unwrap();
    }
    let nct = ctors().len();
    let fa = full_alphabet();
    let ca = core_alphabet();
    // jobs: (full?, ctor, first op)
    let mut specs: Vec<(bool, usize, usize)> = Vec::new();
    for ci in 0..nct {
        for f in 0..fa.len() {
            specs.push((true, ci, f));
        }
        for f in 0..ca.len() {
            specs.push((false, ci, f));
        }
    }
    // LADDER jobs: one per number of pushes (skipped when `--depths` restricts the run for the slow monitors)
    let nspec = specs.len();
    let nladder = if a.rest.iter().any(|x| x == "--depths") { 0 } else { cap() + 2 };
    let dummy: Vec<Job> = (0..nspec + nladder).map(|_| -> Job { Box::new(|_e: &mut fam::Emit| {}) }).collect();
    let st = run_jobs(
        &dummy,
        |_s, _j, _c| {},
        |st, j| {
            if j >= nspec {
                let k = j - nspec;
                let c = cap();
                let mut steps = 0u64;
                let mut cap_fail = 0u64;
                for jj in 0..=k.min(c) {
                    for r in 0..=c + 1 {
                        for f in 0..2usize {
                            let f = (f * 3 + r + jj) % 7;
                            let ops = ladder_ops(k, jj, r, f);
                            st.cases += 1;
                            st.nontrivial += 1;
                            st.calls += 1;
                            st.bump("ladder_histories");
                            let res = catch_unwind(AssertUnwindSafe(|| run_history(Op::New, &ops, &mut steps, &mut cap_fail)))
                                .unwrap_or_else(|e| Some(format!("panic: {}", real::panic_msg(e))));
                            if let Some(m) = res {
                                let hs = format!("L:{}:{}:{}:{}", k, jj, r, f);
                                st.violation(api_violation("vector-history", "-", format!("LADDER {} pushes, {} pops, resize to {}, tail", k, jj, r), m, "the reference sequence".into(), vec!["replay-c13".into(), hs]));
                            }
                        }
                    }
                }
                st.add("steps", steps);
                st.add("capacity_failures_observed", cap_fail);
                return;
            }
            let (full, ci, first) = specs[j];
            let alpha = if full { &fa } else { &ca };
            let depth = if full { dfull } else { dcore };
            let k = alpha.len();
            let ctor = ctors()[ci];
            // enumerate every history of length exactly `depth` with the given first letter
            // (every shorter history is a prefix and is checked step by step on the way)
            let mut idx = vec![0usize; depth];
            idx[0] = first;
            let mut steps = 0u64;
            let mut cap_fail = 0u64;
            let total = (k as u64).pow(depth as u32 - 1);
            for n in 0..total {
                let mut r = n;
                for p in (1..depth).rev() {
                    idx[p] = (r % k as u64) as usize;
                    r /= k as u64;
                }
                let ops: Vec<Op> = idx.iter().map(|&i| alpha[i]).collect();
                crate::run::trace_op("HIST", &hist_string(ci, full, &idx));
                st.cases += 1;
                st.nontrivial += 1;
                st.calls += 1;
                let r = catch_unwind(AssertUnwindSafe(|| run_history(ctor, &ops, &mut steps, &mut cap_fail)))
                    .unwrap_or_else(|e| Some(format!("panic: {}", real::panic_msg(e))));
                if let Some(m) = r {
                    let hs = hist_string(ci, full, &idx);
                    st.violation(api_violation("vector-history", "-", format!("{:?} then {:?}", ctor, ops), m, "the reference sequence".into(), vec!["replay-c13".into(), hs]));
                }
            }
            st.add("steps", steps);
            st.add("capacity_failures_observed", cap_fail);
        },
    );
    let mut st = st;
    st.sample(format!("{:?} then {:?}", ctors()[7], &fa[..4]));
    st.sample(format!("{:?} then {:?}", ctors()[0], &ca[3..9]));
    (
        st,
        format!(
            "\"backend\":\"{}\",\"capacity\":{},\"depth_full\":{},\"depth_core\":{},\"alphabet_full\":{},\"alphabet_core\":{},\"constructors\":{},\"families\":[{{\"family\":\"all histories: ctor x full^{} and ctor x core^{}, never merged\",\"wall_s\":{:.2}}}]",
            if HEAP { "heap" } else { "stack" },
            cap(),
            dfull,
            dcore,
            fa.len(),
            ca.len(),
            nct,
            dfull,
            dcore,
            t.secs()
        ),
    )
}

// ---------------------------------------------------------------------------
// C14 power constants
// ---------------------------------------------------------------------------

fn c14_bad(st: &mut Stats, what: String, got: String, want: String) {
    st.violation(api_violation("constant", "-", what, got, want, vec!["c14".into()]));
}

/// 128-bit Eisel-Lemire entry for 5^q by the generator's definition (etc/lemire_table.py).
#[cfg(not(feature = "compact"))]
fn lemire_entry(q: i32) -> (u128, Nat, u32) {
    // returns (entry, 5^|q|, s) ; for q < 0 the entry is floor((floor(2^b / 5^-q) + 1) / 2^s)
    if q >= 0 {
        let p = pow5(q as u32);
        let z = p.bits();
        let v = if z <= 128 { p.shl(128 - z) } else { p.shr(z - 128) };
        (v.to_u128().unwrap(), p, 0)
    } else {
        let p = pow5((-q) as u32);
        // z = smallest with 2^z >= p
        let mut z = p.bits();
        if p == Nat::from_u64(1).shl(z - 1) {
            z -= 1;
        }
        let b = if q >= -27 { z + 127 } else { 2 * z + 128 };
        let (quo, _) = Nat::from_u64(1).shl(b).divrem(&p);
        let mut c = quo;
        c.add_small(1);
        let mut s = 0;
        while c.bits() > 128 {
            c = c.shr(1);
            s += 1;
        }
        (c.to_u128().unwrap(), p, s)
    }
}

fn f_bits_exact(bits: u64, f: mlxcore::exact::Fmt, k: u32) -> bool {
    // is the float exactly 10^k ?
    if bits >= f.inf_bits() {
        return false;
    }
    let (m, e) = f.decode(bits);
    let v = if e >= 0 { (Nat::from_u64(m).shl(e as u64), Nat::from_u64(1)) } else { (Nat::from_u64(m), Nat::from_u64(1).shl((-e) as u64)) };
    // m*2^e == 10^k  <=>  m * 2^max(e,0) == 10^k * 2^max(-e,0)
    v.0 == mlxcore::nat::pow10(k).mul(&v.1)
}

pub fn c14(_a: &Args) -> (Stats, String) {
    use minimal_lexical::Float;
    let t = Timer::new();
    let mut st = Stats::default();
    let mut note = |st: &mut Stats, n: u64| {
        st.cases += n;
        st.calls += n;
        st.nontrivial += n;
    };
    #[cfg(not(feature = "compact"))]
    {
        use minimal_lexical::table::*;
        // 651 x 128-bit
        if POWER_OF_FIVE_128.len() != 651 || SMALLEST_POWER_OF_FIVE != -342 || LARGEST_POWER_OF_FIVE != 308 {
            c14_bad(&mut st, "POWER_OF_FIVE_128 range".into(), format!("{} entries [{},{}]", POWER_OF_FIVE_128.len(), SMALLEST_POWER_OF_FIVE, LARGEST_POWER_OF_FIVE), "651 entries [-342,308]".into());
        }
        for (i, &(hi, lo)) in POWER_OF_FIVE_128.iter().enumerate() {
            note(&mut st, 1);
            let q = SMALLEST_POWER_OF_FIVE + i as i32;
            let got = ((hi as u128) << 64) | lo as u128;
            let (want, p, _s) = lemire_entry(q);
            if got != want {
                c14_bad(&mut st, format!("POWER_OF_FIVE_128[5^{}]", q), format!("{:#034x}", got), format!("{:#034x}", want));
            }
            // the semantic bound the algorithm needs, by multiplication only:
            // q >= 0: T <= 5^q * 2^s < T + 1 ; q < 0: true < T <= true + 1 with true = 2^k / 5^-q
            let tn = Nat::from_u128(got);
            if got >> 127 != 1 {
                c14_bad(&mut st, format!("POWER_OF_FIVE_128[5^{}] normalisation", q), format!("{:#034x}", got), "top bit set".into());
            } else if q >= 0 {
                let z = p.bits();
                let ok = if z <= 128 { tn == p.shl(128 - z) } else { tn.shl(z - 128).cmp(&p) != Ordering::Greater && Nat::from_u128(got).add(&Nat::from_u64(1)).shl(z - 128).cmp(&p) == Ordering::Greater };
                if !ok {
                    c14_bad(&mut st, format!("POWER_OF_FIVE_128[5^{}] semantic bound", q), format!("{:#034x}", got), "floor(5^q * 2^s)".into());
                }
            } else {
                // k with true = 2^k / p in [2^127, 2^128): |T - true| <= 1, i.e. (T-1) * p <= 2^k < (T+1) * p
                // (the generator adds one before it truncates, so T may fall on either side of the true quotient)
                let k = p.bits() + 127;
                let pow2 = Nat::from_u64(1).shl(k);
                let pow2b = Nat::from_u64(1).shl(k - 1);
                let one = Nat::from_u64(1);
                let chk = |pw: &Nat| tn.sub(&one).mul(&p).cmp(pw) != Ordering::Greater && tn.add(&one).mul(&p).cmp(pw) == Ordering::Greater;
                if !(chk(&pow2) || chk(&pow2b)) {
                    c14_bad(&mut st, format!("POWER_OF_FIVE_128[5^{}] semantic bound", q), format!("{:#034x}", got), "within one unit of 2^k/5^-q".into());
                }
            }
        }
        for (i, &v) in SMALL_INT_POW5.iter().enumerate() {
            note(&mut st, 1);
            if Nat::from_u64(v) != pow5(i as u32) {
                c14_bad(&mut st, format!("SMALL_INT_POW5[{}]", i), v.to_string(), "5^i".into());
            }
        }
        if SMALL_INT_POW5.len() != 28 || SMALL_INT_POW10.len() != 20 {
            c14_bad(&mut st, "small integer table sizes".into(), format!("{} / {}", SMALL_INT_POW5.len(), SMALL_INT_POW10.len()), "28 / 20".into());
        }
        for (i, &v) in SMALL_INT_POW10.iter().enumerate() {
            note(&mut st, 1);
            if Nat::from_u64(v) != mlxcore::nat::pow10(i as u32) {
                c14_bad(&mut st, format!("SMALL_INT_POW10[{}]", i), v.to_string(), "10^i".into());
            }
        }
        for k in 0..=10u32 {
            note(&mut st, 1);
            if !f_bits_exact(SMALL_F32_POW10[k as usize].to_bits() as u64, mlxcore::exact::F32, k) {
                c14_bad(&mut st, format!("SMALL_F32_POW10[{}]", k), format!("{:e}", SMALL_F32_POW10[k as usize]), "10^k exactly".into());
            }
        }
        for k in 0..=22u32 {
            note(&mut st, 1);
            if !f_bits_exact(SMALL_F64_POW10[k as usize].to_bits(), mlxcore::exact::F64, k) {
                c14_bad(&mut st, format!("SMALL_F64_POW10[{}]", k), format!("{:e}", SMALL_F64_POW10[k as usize]), "10^k exactly".into());
            }
        }
        note(&mut st, 2);
        if Nat::from_limbs(&LARGE_POW5) != pow5(135) {
            c14_bad(&mut st, "LARGE_POW5".into(), format!("{:x?}", LARGE_POW5), "5^135".into());
        }
        if LARGE_POW5_STEP != 135 {
            c14_bad(&mut st, "LARGE_POW5_STEP".into(), LARGE_POW5_STEP.to_string(), "135".into());
        }
    }
    #[cfg(feature = "compact")]
    {
        use minimal_lexical::table::BASE10_POWERS as P;
        // top 64 bits (truncated) of 10^k and its binary exponent floor(log2 10^k) - 63
        let top64 = |k: i32| -> (u64, i32) {
            if k >= 0 {
                let p = mlxcore::nat::pow10(k as u32);
                let z = p.bits();
                let m = if z <= 64 { p.shl(64 - z) } else { p.shr(z - 64) };
                (m.to_u64().unwrap(), z as i32 - 64)
            } else {
                let p = mlxcore::nat::pow10((-k) as u32);
                // 10^k = 2^t / p * 2^-t ; choose t with quotient in [2^63, 2^64)
                let mut t = p.bits() + 63;
                let (mut quo, _) = Nat::from_u64(1).shl(t).divrem(&p);
                if quo.bits() > 64 {
                    t -= 1;
                    quo = Nat::from_u64(1).shl(t).divrem(&p).0;
                }
                (quo.to_u64().unwrap(), -(t as i32))
            }
        };
        if P.small.len() != 10 || P.large.len() != 66 || P.small_int.len() != 10 || P.step != 10 || P.bias != 350 {
            c14_bad(&mut st, "BASE10_POWERS shape".into(), format!("{}/{}/{} step {} bias {}", P.small.len(), P.large.len(), P.small_int.len(), P.step, P.bias), "10/66/10 step 10 bias 350".into());
        }
        for i in 0..P.small.len() {
            note(&mut st, 2);
            let (m, e) = top64(i as i32);
            let g = P.get_small(i);
            if g.mant != m || g.exp != e {
                c14_bad(&mut st, format!("BASE10 small[{}]", i), format!("({},{})", g.mant, g.exp), format!("({},{})", m, e));
            }
            if Nat::from_u64(P.get_small_int(i)) != mlxcore::nat::pow10(i as u32) {
                c14_bad(&mut st, format!("BASE10 small_int[{}]", i), P.get_small_int(i).to_string(), "10^i".into());
            }
        }
        for i in 0..P.large.len() {
            note(&mut st, 1);
            let k = i as i32 * P.step - P.bias;
            let (m, e) = top64(k);
            let g = P.get_large(i);
            if g.mant != m || g.exp != e {
                c14_bad(&mut st, format!("BASE10 large[{}] = 10^{}", i, k), format!("({},{})", g.mant, g.exp), format!("({},{})", m, e));
            }
        }
    }
    // every configuration: float powers of ten used by the fast path (table, std powf, bundled libm)
    // every power the fast path can consume: multiplication up to MAX_EXPONENT_FAST_PATH, division up to
    // -MIN_EXPONENT_FAST_PATH (the ranges are read from the crate, so widening a limit widens the check)
    let k64 = <f64 as Float>::MAX_EXPONENT_FAST_PATH.max(-<f64 as Float>::MIN_EXPONENT_FAST_PATH) as u32;
    let k32 = <f32 as Float>::MAX_EXPONENT_FAST_PATH.max(-<f32 as Float>::MIN_EXPONENT_FAST_PATH) as u32;
    for k in 0..=k64 {
        note(&mut st, 1);
        let v = unsafe { <f64 as Float>::pow_fast_path(k as usize) };
        if !f_bits_exact(v.to_bits(), mlxcore::exact::F64, k) {
            c14_bad(&mut st, format!("<f64 as Float>::pow_fast_path({})", k), format!("{:#x}", v.to_bits()), "10^k exactly".into());
        }
    }
    for k in 0..=k32 {
        note(&mut st, 1);
        let v = unsafe { <f32 as Float>::pow_fast_path(k as usize) };
        if !f_bits_exact(v.to_bits() as u64, mlxcore::exact::F32, k) {
            c14_bad(&mut st, format!("<f32 as Float>::pow_fast_path({})", k), format!("{:#x}", v.to_bits()), "10^k exactly".into());
        }
    }
    // on-demand integer powers: 5^n through bigint::pow(1, n), n < 28 (and the 27-step), 10^d through parse_mantissa chunks
    for n in 0..=200u32 {
        note(&mut st, 1);
        let mut v = VecType::from_u64(1);
        if bigint::pow(&mut v, n).is_none() || val(&v) != pow5(n) {
            c14_bad(&mut st, format!("bigint::pow(1, {})", n), enc(&v), "5^n".into());
        }
    }
    for d in 1..=19usize {
        for lead in [b'1', b'9'] {
            note(&mut st, 1);
            // 19 + d digits: the second chunk multiplies by 10^d
            let mut digits = vec![lead; 19];
            digits.extend(std::iter::repeat(b'7').take(d));
            let (b, n) = minimal_lexical::slow::parse_mantissa(digits.iter(), b"".iter(), 800);
            if n != 19 + d || val(&b.data) != Nat::from_dec(&digits) {
                c14_bad(&mut st, format!("parse_mantissa chunk of {} digits", d), enc(&b.data), "the decimal value".into());
            }
            // the same through the fraction
            let (b, n) = minimal_lexical::slow::parse_mantissa(digits[..19].iter(), digits[19..].iter(), 800);
            if n != 19 + d || val(&b.data) != Nat::from_dec(&digits) {
                c14_bad(&mut st, format!("parse_mantissa fraction chunk of {} digits", d), enc(&b.data), "the decimal value".into());
            }
        }
    }
    st.sample("POWER_OF_FIVE_128[5^-342] (hi, lo) vs floor(2^b/5^342)+1 normalised".into());
    st.sample("<f64 as Float>::pow_fast_path(22) == 10^22".into());
    st.sample("BASE10 large[0] = top 64 bits of 10^-350, exponent floor(log2) - 63".into());
    (st, format!("\"compact\":{},\"std\":{},\"families\":[{{\"family\":\"every table entry and on-demand power of this configuration\",\"wall_s\":{:.2}}}]", cfg!(feature = "compact"), cfg!(feature = "std"), t.secs()))
}
