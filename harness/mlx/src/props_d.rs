//! C19: the shipped string front-end (all seven copies, compiled from the repository sources by
//! build.rs) combined with the library, against an independent longest-prefix recogniser.

use crate::real;
use crate::run::{abbrev, api_violation, run_jobs, Stats, Timer};
use crate::Args;
use mlxcore::exact::{check, expected, DecN, Fmt, F32, F64};
use mlxcore::families::{self as fam, Job};
use std::panic::{catch_unwind, AssertUnwindSafe};

macro_rules! fe_mod {
    ($name:ident, $file:literal) => {
        #[allow(dead_code, unused_imports, clippy::all, mismatched_lifetime_syntaxes, unused_variables)]
        pub mod $name {
            include!(concat!(env!("OUT_DIR"), $file));
        }
    };
}
fe_mod!(fe0, "/fe_0.rs");
fe_mod!(fe1, "/fe_1.rs");
fe_mod!(fe2, "/fe_2.rs");
fe_mod!(fe3, "/fe_3.rs");
fe_mod!(fe4, "/fe_4.rs");
fe_mod!(fe5, "/fe_5.rs");
fe_mod!(fe6, "/fe_6.rs");
include!(concat!(env!("OUT_DIR"), "/fe_index.rs"));

/// copies 1 and 2 (fuzz target, integration tests) accept nan / inf / infinity
const SPECIALS: [bool; 7] = [false, true, true, false, false, false, false];

fn call<F: real::RF>(copy: usize, s: &[u8]) -> Result<(u64, usize), String> {
    catch_unwind(AssertUnwindSafe(|| {
        let (x, rest): (F, &[u8]) = match copy {
            0 => fe0::parse_float::<F>(s),
            1 => fe1::parse_float::<F>(s),
            2 => fe2::parse_float::<F>(s),
            3 => fe3::parse_float::<F>(s),
            4 => fe4::parse_float::<F>(s),
            5 => fe5::parse_float::<F>(s),
            _ => fe6::parse_float::<F>(s),
        };
        // the suffix must be a tail of the input: report its offset
        let off = s.len() - rest.len();
        let tail_ok = rest.as_ptr() as usize == s.as_ptr() as usize + off || rest.is_empty();
        (minimal_lexical::Float::to_bits(x), if tail_ok { off } else { usize::MAX })
    }))
    .map_err(real::panic_msg)
}

/// Reference: (sign, Some(value) | None for NaN | inf marker, consumed length)
enum RefVal {
    Num(DecN),
    Inf,
    NaN,
}
fn reference(s: &[u8], specials: bool) -> (bool, RefVal, usize) {
    let mut p = 0;
    let mut neg = false;
    if p < s.len() && (s[p] == b'+' || s[p] == b'-') {
        neg = s[p] == b'-';
        p += 1;
    }
    if specials {
        let ci = |lit: &[u8]| s.len() >= p + lit.len() && s[p..p + lit.len()].eq_ignore_ascii_case(lit);
        if ci(b"nan") {
            return (neg, RefVal::NaN, p + 3);
        }
        if ci(b"infinity") {
            return (neg, RefVal::Inf, p + 8);
        }
        if ci(b"inf") {
            return (neg, RefVal::Inf, p + 3);
        }
    }
    let digits = |p: &mut usize| -> (usize, usize) {
        let a = *p;
        while *p < s.len() && s[*p].is_ascii_digit() {
            *p += 1;
        }
        (a, *p)
    };
    let (i0, i1) = digits(&mut p);
    let (mut f0, mut f1) = (p, p);
    if p < s.len() && s[p] == b'.' {
        p += 1;
        let r = digits(&mut p);
        f0 = r.0;
        f1 = r.1;
    }
    let mut e: i128 = 0;
    if p < s.len() && (s[p] == b'e' || s[p] == b'E') {
        p += 1;
        let mut eneg = false;
        if p < s.len() && (s[p] == b'+' || s[p] == b'-') {
            eneg = s[p] == b'-';
            p += 1;
        }
        let (a, b) = digits(&mut p);
        for &c in &s[a..b] {
            e = (e * 10 + (c - b'0') as i128).min(1i128 << 100);
        }
        if eneg {
            e = -e;
        }
    }
    if specials && p == 0 {
        // nothing consumed at all: +0.0 and the whole input
        return (false, RefVal::Num(DecN::from_parts(b"", b"", 0)), 0);
    }
    let mut v = DecN::from_parts(&s[i0..i1], &s[f0..f1], 0);
    let e = e.clamp(-(1i128 << 40), 1i128 << 40) as i64;
    v.exp10 += e;
    (neg, RefVal::Num(v), p)
}

fn judge<F: real::RF>(copy: usize, s: &[u8]) -> Option<(String, String)> {
    let f: Fmt = F::FMT;
    let (neg, val, consumed) = reference(s, SPECIALS[copy]);
    let sign_bit = 1u64 << (f.mant_bits() + f.ebits);
    match call::<F>(copy, s) {
        Err(m) => Some((format!("panic: {}", m), "a value".into())),
        Ok((bits, off)) => {
            if off != consumed {
                return Some((format!("consumed {} bytes", off as isize), format!("consumed {} bytes", consumed)));
            }
            let mag = bits & !sign_bit;
            let got_neg = bits & sign_bit != 0;
            let ok = match &val {
                RefVal::NaN => mag > f.inf_bits(),
                RefVal::Inf => mag == f.inf_bits(),
                RefVal::Num(v) => mag <= f.inf_bits() && check(v, f, mag),
            };
            if !ok || got_neg != neg {
                let want = match &val {
                    RefVal::NaN => "NaN".to_string(),
                    RefVal::Inf => "inf".to_string(),
                    RefVal::Num(v) => format!("{:#x}", expected(v, f)),
                };
                return Some((format!("{:#x}", bits), format!("{}{}", if neg { "-" } else { "+" }, want)));
            }
            None
        },
    }
}

fn enc(s: &[u8]) -> String {
    if s.is_empty() {
        return "-".into();
    }
    s.iter().map(|b| format!("{:02x}", b)).collect()
}
fn dec(s: &str) -> Vec<u8> {
    if s == "-" {
        return vec![];
    }
    (0..s.len() / 2).map(|i| u8::from_str_radix(&s[2 * i..2 * i + 2], 16).unwrap()).collect()
}

pub fn replay_c19(rest: &[String]) -> ! {
    let copy: usize = rest[0].parse().unwrap();
    let s = dec(&rest[2]);
    let r = if rest[1] == "f32" { judge::<f32>(copy, &s) } else { judge::<f64>(copy, &s) };
    println!("REPLAY cfg={} front-end copy {} ({}) on {:?} as {}: {:?} ok={}", real::cfg_name(), copy, FE_PATHS[copy], String::from_utf8_lossy(&s), rest[1], r, r.is_none());
    std::process::exit(if r.is_none() { 0 } else { 1 })
}

fn one_input(st: &mut Stats, s: &[u8], fam: &'static str) {
    st.cases += 1;
    *st.by_fam.entry(fam).or_insert(0) += 1;
    if s.len() > 2 {
        st.nontrivial += 1;
        crate::value::note_nontrivial(&mlxcore::families::Case { int: s, frac: b"", exp: 0, fam: "", fmts: 0, expect: None });
    }
    for copy in 0..7 {
        for is32 in [false, true] {
            st.calls += 1;
            let r = if is32 { judge::<f32>(copy, s) } else { judge::<f64>(copy, s) };
            if let Some((got, want)) = r {
                let fmt = if is32 { "f32" } else { "f64" };
                st.violation(api_violation(
                    "front-end",
                    fmt,
                    format!("{} parse_float::<{}>({:?}) [{}]", FE_PATHS[copy], fmt, abbrev(s), fam),
                    got,
                    want,
                    vec!["replay-c19".into(), copy.to_string(), fmt.into(), enc(s)],
                ));
            }
        }
    }
}

// every syntactic role, plus the neighbours of the digit range and bytes that are digits / numeric only
// under a wider notion than ASCII ('/' ':' and Latin-1 superscript two, one half)
const ALPHA: [u8; 15] = [b'+', b'-', b'0', b'1', b'9', b'.', b'e', b'E', b'x', 0, 0xFF, b'/', b':', 0xB2, 0xBD];
const NA: usize = ALPHA.len();

pub fn c19(a: &Args) -> (Stats, String) {
    let t = Timer::new();
    let n = if a.thorough { 8 } else { 6 };
    // TEXT(n): one job per 2-byte prefix (121) plus one for the short strings
    // quick tier only (TEXT(8) of the thorough tier subsumes them): every string of exactly 7 bytes over the 9-byte core
    // alphabet and of exactly 8 bytes over the 7-byte one - the shortest lengths at which sign, integer, point, fraction,
    // exponent marker, exponent sign and exponent digit (and a suffix byte) are all present at once. One job per first byte.
    const CORE7: [u8; 9] = [b'+', b'-', b'0', b'1', b'.', b'e', b'E', b'x', 0xFF];
    const CORE8: [u8; 7] = [b'-', b'+', b'0', b'1', b'.', b'e', b'x'];
    let ncore = if a.thorough { 0 } else { CORE7.len() + CORE8.len() };
    let dummy: Vec<Job> = (0..NA * NA + 3 + ncore).map(|_| -> Job { Box::new(|_e: &mut fam::Emit| {}) }).collect();
    let st = run_jobs(
        &dummy,
        |_s, _j, _c| {},
        |st, j| {
            if j < NA * NA {
                let pre = [ALPHA[j / NA], ALPHA[j % NA]];
                // all strings of length 2..=n with this prefix
                let mut buf: Vec<u8> = Vec::with_capacity(n);
                for len in 2..=n {
                    let rest = len - 2;
                    let total = NA.pow(rest as u32);
                    for k in 0..total {
                        buf.clear();
                        buf.extend_from_slice(&pre);
                        let mut r = k;
                        for _ in 0..rest {
                            buf.push(ALPHA[r % NA]);
                            r /= NA;
                        }
                        one_input(st, &buf, "TEXT");
                    }
                }
            } else if j == NA * NA {
                one_input(st, b"", "TEXT");
                for &c in &ALPHA {
                    one_input(st, &[c], "TEXT");
                }
            } else if j == NA * NA + 1 {
                // special literals: every case variant x sign x suffix, and near misses
                for lit in ["nan", "inf", "infinity"] {
                    let l = lit.as_bytes();
                    for m in 0..(1u32 << l.len()) {
                        let v: Vec<u8> = l.iter().enumerate().map(|(i, &c)| if m >> i & 1 == 1 { c.to_ascii_uppercase() } else { c }).collect();
                        for sign in [b"".as_ref(), b"+", b"-"] {
                            for suf in [b"".as_ref(), b"x", b"1", b"ity", b".5", b"e5", b" "] {
                                let mut s = sign.to_vec();
                                s.extend_from_slice(&v);
                                s.extend_from_slice(suf);
                                one_input(st, &s, "SPECIAL");
                            }
                        }
                    }
                }
                // round 9: every letter of a special literal replaced by its aliases under partial comparisons (bit 7 set,
                // bit 5 or bit 6 flipped): `(x & 0x5F) == (y & 0x5F)`-style matching accepts bytes that are not letters
                for lit in ["nan", "inf", "infinity"] {
                    let l = lit.as_bytes();
                    for pos in 0..l.len() {
                        for alias in [l[pos] | 0x80, l[pos].to_ascii_uppercase() | 0x80, l[pos] ^ 0x40, l[pos] ^ 0x10, l[pos] & 0x1F] {
                            let mut v = l.to_vec();
                            v[pos] = alias;
                            for sign in [b"".as_ref(), b"-"] {
                                for suf in [b"".as_ref(), b"x"] {
                                    let mut s = sign.to_vec();
                                    s.extend_from_slice(&v);
                                    s.extend_from_slice(suf);
                                    one_input(st, &s, "SPECIAL");
                                }
                            }
                        }
                    }
                }
                // round 9: exponents of 4..6 digits compensated by digit runs of the same length (the value is 1 or 2.5)
                for n in [1000usize, 9999, 10000, 99999, 100000, 100001] {
                    let zeros = vec![b'0'; n];
                    let mut a = b"1".to_vec();
                    a.extend_from_slice(&zeros);
                    a.extend_from_slice(format!("e-{}", n).as_bytes());
                    one_input(st, &a, "STRUCTURED");
                    let mut b = b"0.".to_vec();
                    b.extend_from_slice(&zeros[1..]);
                    b.extend_from_slice(format!("1e{}", n).as_bytes());
                    one_input(st, &b, "STRUCTURED");
                    let mut c = b"-25".to_vec();
                    c.extend_from_slice(&zeros);
                    c.extend_from_slice(format!("e-{}x", n + 1).as_bytes());
                    one_input(st, &c, "STRUCTURED");
                    let mut d = b"+.".to_vec();
                    d.extend_from_slice(&zeros);
                    d.extend_from_slice(format!("25E+0{} ", n + 1).as_bytes());
                    one_input(st, &d, "STRUCTURED");
                }
                for miss in ["na", "n", "in", "i", "infinit", "infinitx", "nax", "1nan", ".inf", "einf", "-", "+", "--1", "+-1", "-+1", "-.", "-e", "-e5", "-.e5", "+.5e-1x"] {
                    one_input(st, miss.as_bytes(), "SPECIAL");
                }
            } else if j >= NA * NA + 3 {
                let k = j - (NA * NA + 3);
                let (alpha, len, first): (&[u8], usize, u8) = if k < CORE7.len() { (&CORE7, 7, CORE7[k]) } else { (&CORE8, 8, CORE8[k - CORE7.len()]) };
                let na = alpha.len();
                let mut buf: Vec<u8> = Vec::with_capacity(len);
                for k in 0..na.pow(len as u32 - 1) {
                    buf.clear();
                    buf.push(first);
                    let mut r = k;
                    for _ in 1..len {
                        buf.push(alpha[r % na]);
                        r /= na;
                    }
                    one_input(st, &buf, "TEXT-CORE");
                }
            } else {
                // structured product
                let ints: [&[u8]; 8] = [b"", b"0", b"00", b"1", b"10", b"007", b"1234567890123456789012345", b"9007199254740993"];
                let fracs: [&[u8]; 8] = [b"", b".", b".0", b".5", b".50", b".000", b".0001", b".00000000000000000000000000000000001"];
                // exponent forms, the i32 limits, and the limits of the float ranges (where leading fraction zeros or
                // trailing integer zeros compensate an exponent that alone would be out of range)
                let exps: [&[u8]; 26] = [
                    b"", b"e", b"e+", b"e-", b"e5", b"E-5", b"e005", b"e2147483647", b"e2147483648", b"e-2147483648", b"e-2147483649", b"e99999999999", b"e-99999999999",
                    b"e00000000000000000000000000000000001", b"e38", b"e39", b"e-45", b"e-46", b"e308", b"e309", b"e311", b"e343", b"e-323", b"e-324", b"e-331", b"e-358",
                ];
                let sufs: [&[u8]; 8] = [b"", b" ", b"x", b".", b"e", b"-", &[0], &[0xFF]];
                for sign in [b"".as_ref(), b"+", b"-"] {
                    for i in ints {
                        for f in fracs {
                            for e in exps {
                                for su in sufs {
                                    let mut s = sign.to_vec();
                                    s.extend_from_slice(i);
                                    s.extend_from_slice(f);
                                    s.extend_from_slice(e);
                                    s.extend_from_slice(su);
                                    one_input(st, &s, "STRUCTURED");
                                }
                            }
                        }
                    }
                }
            }
        },
    );
    let mut st = st;
    st.sample("TEXT: \"-1.9e+\"  \"e-0.x\"  \"+.\\0\\xff\"".into());
    st.sample("SPECIAL: \"-InFiNiTyx\"  \"+nAn.5\"  \"infinit\"".into());
    st.sample("STRUCTURED: \"-007.50e-2147483649x\"  \"1234567890123456789012345.0001e99999999999 \"".into());
    (
        st,
        format!(
            "\"copies\":[{}],\"families\":[{{\"family\":\"TEXT({}) over 15 bytes{} + special literals + structured product, 7 copies x 2 formats\",\"wall_s\":{:.2}}}]",
            FE_PATHS.iter().map(|p| format!("{:?}", p)).collect::<Vec<_>>().join(","),
            n,
            if a.thorough { "" } else { " + every 7-byte string over 9 core bytes + every 8-byte string over 7 core bytes" },
            t.secs()
        ),
    )
}
