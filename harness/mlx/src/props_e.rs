//! C16 (purity: iterator shapes, addresses, call histories, concurrent callers) and
//! C08 (arbitrary bytes: every call returns a value or panics cleanly; UB monitors are the build variants).

use crate::real::{self, RF};
use crate::run::{abbrev, api_violation, run_jobs, Stats, Timer};
use crate::Args;
use mlxcore::exact::{F32, F64};
use mlxcore::families::{self as fam, Case, Job};
use std::collections::{BTreeMap, LinkedList, VecDeque};
use std::panic::{catch_unwind, AssertUnwindSafe};

#[derive(Clone, Debug)]
pub struct Inp {
    pub int: Vec<u8>,
    pub frac: Vec<u8>,
    pub exp: i32,
}

fn base_bits<F: RF>(i: &Inp) -> u64 {
    real::parse::<F>(&i.int, &i.frac, i.exp).unwrap_or(0xDEAD_0000_0000_0001)
}

/// ~200 inputs covering every path class of both formats (classification through the hook is used
/// only to pick the alphabet, never for a verdict).
pub fn base_alphabet(seed: u64, hard: Option<&str>) -> Vec<Inp> {
    let mut jobs: Vec<Job> = Vec::new();
    jobs.extend(fam::short(2, -30, 30, "S").into_iter().step_by(6));
    jobs.extend(fam::seam(-340, 320).into_iter().step_by(41));
    jobs.extend(fam::boundary_deep(F64, 512, seed, 769, false));
    jobs.extend(fam::boundary_deep(F32, 128, seed, 114, false));
    jobs.extend(fam::extreme(false).into_iter().step_by(7));
    let mut buckets: BTreeMap<(String, String, usize, usize), Vec<Inp>> = BTreeMap::new();
    for j in &jobs {
        let mut emit = |c: &Case| {
            let p64 = real::classify::<f64>(c.int, c.frac, c.exp).0;
            let p32 = real::classify::<f32>(c.int, c.frac, c.exp).0;
            let lb = |n: usize| match n {
                0 => 0,
                1..=19 => 1,
                20..=40 => 2,
                41..=200 => 3,
                201..=800 => 4,
                _ => 5,
            };
            let key = (p64.to_string(), p32.to_string(), lb(c.int.len()), lb(c.frac.len()));
            let b = buckets.entry(key).or_default();
            if b.len() < 2 && c.int.len() + c.frac.len() <= 6000 {
                b.push(Inp { int: c.int.to_vec(), frac: c.frac.to_vec(), exp: c.exp });
            }
        };
        let e: &mut fam::Emit = &mut emit;
        j(e);
    }
    let mut out: Vec<Inp> = buckets.into_values().flatten().collect();
    // inputs that force long multiplication (pow >= 135) and multi-limb zero gaps
    out.push(Inp { int: b"12345000000000000218930239".to_vec(), frac: vec![], exp: 200 });
    out.push(Inp { int: b"47299799766906385947263424561840503652352".to_vec(), frac: vec![], exp: 140 }); // 139 << 128
    out.push(Inp { int: b"340282366920938463463374607431768211457".to_vec(), frac: vec![], exp: 300 });
    out.push(Inp { int: b"9007199254740993".to_vec(), frac: b"0000000001".to_vec(), exp: 0 });
    out.push(Inp { int: vec![b'1'; 25], frac: vec![b'9'; 30], exp: -3 });
    out.truncate(260);
    // GAPS: big integers with runs of zero limbs that reach the big-integer path with long multiplication
    // (the only inputs whose partial sums are extended over never-written limbs)
    if let Some(p) = hard {
        let text = std::fs::read_to_string(p).unwrap_or_default();
        let gaps: Vec<(i32, Vec<u8>)> = text
            .lines()
            .filter_map(|l| {
                let mut it = l.split_whitespace();
                if it.next()? != "str64" {
                    return None;
                }
                let e = it.next()?.parse().ok()?;
                let d = it.next()?.as_bytes().to_vec();
                // only the GAPS entries (`gap`); the LIMB-EDGE entries of the same file are value-family members only
                if it.next()? != "gap" {
                    return None;
                }
                Some((e, d))
            })
            .collect();
        // the longest ones have the widest zero runs (limbs [B, 0 x 7, A] for k = 512)
        let mut gaps = gaps;
        gaps.sort_by(|a, b| b.1.len().cmp(&a.1.len()).then(a.cmp(b)));
        for (e, d) in gaps.into_iter().take(12) {
            out.push(Inp { int: d, frac: vec![], exp: e });
        }
    }
    out
}

/// `--gap <exp>:<digits>`: one GAPS input handed over by the driver (the slow monitors must not parse the 13 MB list)
fn gap_from_args(a: &Args) -> Vec<Inp> {
    // `--gap` may be given several times (one GAPS input, and a few LIMB-EDGE / RIPPLE / POW2-POS inputs)
    let mut out = Vec::new();
    for (p, x) in a.rest.iter().enumerate() {
        if x == "--gap" {
            if let Some((e, d)) = a.rest.get(p + 1).and_then(|s| s.split_once(':')) {
                out.push(Inp { int: d.as_bytes().to_vec(), frac: vec![], exp: e.parse().unwrap_or(135) });
            }
        }
    }
    out
}

/// number of trailing alphabet entries that every history set includes
const TAIL: usize = 17;

// ---- iterator shapes ------------------------------------------------------------------------------

/// Hand-written iterator: `clone` deep-copies its scratch state, `size_hint` is (0, None).
#[derive(Debug)]
struct DeepIter<'a> {
    src: &'a [u8],
    pos: usize,
    scratch: Vec<usize>,
}
impl<'a> Clone for DeepIter<'a> {
    fn clone(&self) -> Self {
        DeepIter { src: self.src, pos: self.pos, scratch: self.scratch.iter().map(|x| x ^ 0).collect() }
    }
}
impl<'a> Iterator for DeepIter<'a> {
    type Item = &'a u8;
    fn next(&mut self) -> Option<&'a u8> {
        let r = self.src.get(self.pos);
        if r.is_some() {
            self.pos += 1;
            self.scratch.push(self.pos);
        }
        r
    }
    fn size_hint(&self) -> (usize, Option<usize>) {
        (0, None)
    }
}

/// A non-fused iterator: the digits, `None` exactly once, then a short tail of further bytes. The Iterator
/// contract allows this (`scan`, `map_while` and hand-written cursors behave so); a caller that polls again
/// after `None` sees the tail.
#[derive(Clone, Debug)]
struct NonFused<'a> {
    src: &'a [u8],
    tail: &'a [u8],
    pos: usize,
    ended: bool,
}
impl<'a> Iterator for NonFused<'a> {
    type Item = &'a u8;
    fn next(&mut self) -> Option<&'a u8> {
        if !self.ended {
            match self.src.get(self.pos) {
                Some(b) => {
                    self.pos += 1;
                    Some(b)
                },
                None => {
                    self.ended = true;
                    self.pos = 0;
                    None
                },
            }
        } else {
            let r = self.tail.get(self.pos);
            if r.is_some() {
                self.pos += 1;
            }
            r
        }
    }
}

fn run_iter<'a, F: RF, I1, I2>(i: I1, f: I2, exp: i32) -> u64
where
    I1: Iterator<Item = &'a u8> + Clone,
    I2: Iterator<Item = &'a u8> + Clone,
{
    match catch_unwind(AssertUnwindSafe(|| minimal_lexical::parse_float::<F, _, _>(i, f, exp))) {
        Ok(x) => x.bits(),
        Err(_) => 0xDEAD_0000_0000_0002,
    }
}

fn interleave(d: &[u8], period: usize, phase: usize) -> Vec<u8> {
    // insert a separator byte '_' so that after filtering it out the digits remain
    let mut v = Vec::with_capacity(d.len() * 2 + 2);
    for (k, &c) in d.iter().enumerate() {
        if (k + phase) % period == 0 {
            v.push(b'_');
        }
        v.push(c);
    }
    if phase % 2 == 1 {
        v.push(b'_');
    }
    v
}

/// All shapes for one input and one format; returns (shape name, bits) for each disagreement.
fn shapes<F: RF>(inp: &Inp, want: u64, count: &mut u64) -> Vec<(String, u64)> {
    let mut bad: Vec<(String, u64)> = Vec::new();
    let (i, f, e) = (&inp.int[..], &inp.frac[..], inp.exp);
    let mut chk = |name: String, got: u64, count: &mut u64| {
        *count += 1;
        if got != want {
            bad.push((name, got));
        }
    };
    // Chain split at every position (capped for very long inputs: every position up to 64, then every 97th, and the last 8)
    let splits = |n: usize| -> Vec<usize> { (0..=n).filter(|&p| p <= 64 || p % 97 == 0 || p + 8 >= n).collect() };
    for p in splits(i.len()) {
        chk(format!("Chain(int split at {})", p), run_iter::<F, _, _>(i[..p].iter().chain(i[p..].iter()), f.iter(), e), count);
    }
    for p in splits(f.len()) {
        chk(format!("Chain(frac split at {})", p), run_iter::<F, _, _>(i.iter(), f[..p].iter().chain(f[p..].iter()), e), count);
    }
    // Filter dropping separators, periods 1..3, every phase
    for period in 1..=3usize {
        for phase in 0..period {
            let ii = interleave(i, period, phase);
            let ff = interleave(f, period, phase);
            chk(
                format!("Filter(period {}, phase {})", period, phase),
                run_iter::<F, _, _>(ii.iter().filter(|c| **c != b'_'), ff.iter().filter(|c| **c != b'_'), e),
                count,
            );
        }
    }
    // skip_while / take_while / Take / Skip over padded buffers
    let mut pad = vec![b'#'; 5];
    pad.extend_from_slice(i);
    pad.extend_from_slice(b"###");
    let mut padf = vec![b'#'; 2];
    padf.extend_from_slice(f);
    padf.extend_from_slice(b"#");
    chk("Skip+Take".into(), run_iter::<F, _, _>(pad.iter().skip(5).take(i.len()), padf.iter().skip(2).take(f.len()), e), count);
    chk(
        "SkipWhile+TakeWhile".into(),
        run_iter::<F, _, _>(pad.iter().skip_while(|c| **c == b'#').take_while(|c| **c != b'#'), padf.iter().skip_while(|c| **c == b'#').take_while(|c| **c != b'#'), e),
        count,
    );
    // Rev over a reversed buffer
    let ri: Vec<u8> = i.iter().rev().cloned().collect();
    let rf: Vec<u8> = f.iter().rev().cloned().collect();
    chk("Rev".into(), run_iter::<F, _, _>(ri.iter().rev(), rf.iter().rev(), e), count);
    // VecDeque with the ring wrapped at several positions
    for rot in [0usize, 1, 7, i.len() / 2, i.len().saturating_sub(1)] {
        let mut dq: VecDeque<u8> = VecDeque::with_capacity(i.len() + 3);
        // rotate so that the ring buffer wraps
        for _ in 0..rot {
            dq.push_back(0);
        }
        for _ in 0..rot {
            dq.pop_front();
        }
        dq.extend(i.iter().cloned());
        let mut dqf: VecDeque<u8> = VecDeque::with_capacity(f.len() + 3);
        for _ in 0..rot {
            dqf.push_back(0);
        }
        for _ in 0..rot {
            dqf.pop_front();
        }
        dqf.extend(f.iter().cloned());
        chk(format!("VecDeque(rot {})", rot), run_iter::<F, _, _>(dq.iter(), dqf.iter(), e), count);
    }
    // LinkedList
    if i.len() + f.len() <= 2000 {
        let li: LinkedList<u8> = i.iter().cloned().collect();
        let lf: LinkedList<u8> = f.iter().cloned().collect();
        chk("LinkedList".into(), run_iter::<F, _, _>(li.iter(), lf.iter(), e), count);
    }
    // hand-written deep-cloning iterator with an empty size hint
    chk(
        "DeepIter(size_hint=(0,None))".into(),
        run_iter::<F, _, _>(DeepIter { src: i, pos: 0, scratch: vec![] }, DeepIter { src: f, pos: 0, scratch: vec![] }, e),
        count,
    );
    // non-fused iterators (digits, None once, then five more bytes): polling after None must not happen
    chk(
        "NonFused(tail after None)".into(),
        run_iter::<F, _, _>(NonFused { src: i, tail: b"77777", pos: 0, ended: false }, NonFused { src: f, tail: b"33333", pos: 0, ended: false }, e),
        count,
    );
    // flat_map / map shapes
    let chunks: Vec<&[u8]> = i.chunks(3).collect();
    let chunksf: Vec<&[u8]> = f.chunks(5).collect();
    chk("Flatten(chunks)".into(), run_iter::<F, _, _>(chunks.iter().flat_map(|c| c.iter()), chunksf.iter().flat_map(|c| c.iter()), e), count);
    // addresses: every alignment offset on the heap, on the stack, in a static-like leaked buffer
    for off in 0..8usize {
        let mut heap = vec![0u8; off];
        heap.extend_from_slice(i);
        let mut heapf = vec![0u8; off + 3];
        heapf.extend_from_slice(f);
        chk(format!("heap offset {}", off), run_iter::<F, _, _>(heap[off..].iter(), heapf[off + 3..].iter(), e), count);
    }
    if i.len() + f.len() <= 900 {
        let mut stack = [0u8; 1024];
        for off in 0..8usize {
            stack[off..off + i.len()].copy_from_slice(i);
            let fo = off + i.len() + 1;
            stack[fo..fo + f.len()].copy_from_slice(f);
            chk(format!("stack offset {}", off), run_iter::<F, _, _>(stack[off..off + i.len()].iter(), stack[fo..fo + f.len()].iter(), e), count);
        }
    }
    bad
}

// ---- stack painting and histories -------------------------------------------------------------------

static PAINT_OFF: std::sync::atomic::AtomicBool = std::sync::atomic::AtomicBool::new(false);

#[inline(never)]
fn paint_stack(byte: u8) -> u64 {
    // under Miri uninitialised memory is tracked natively and painting only costs time
    if PAINT_OFF.load(std::sync::atomic::Ordering::Relaxed) {
        return 0;
    }
    // 128 KiB of stack written with volatile stores so the compiler cannot elide it
    let mut buf = [0u8; 128 * 1024];
    for k in 0..buf.len() {
        unsafe { std::ptr::write_volatile(buf.as_mut_ptr().add(k), byte) };
    }
    let mut acc = 0u64;
    for k in (0..buf.len()).step_by(4096) {
        acc = acc.wrapping_add(unsafe { std::ptr::read_volatile(buf.as_ptr().add(k)) } as u64);
    }
    std::hint::black_box(acc)
}

fn fresh_thread_bits(inp: &Inp) -> (u64, u64) {
    let inp = inp.clone();
    std::thread::Builder::new()
        .stack_size(8 << 20)
        .spawn(move || (base_bits::<f32>(&inp), base_bits::<f64>(&inp)))
        .unwrap()
        .join()
        .unwrap()
}

fn show(i: &Inp) -> String {
    format!("{}.{}e{}", abbrev(&i.int), abbrev(&i.frac), i.exp)
}
fn enc_inp(i: &Inp) -> String {
    format!("{}:{}:{}", crate::rle_str(&i.int), crate::rle_str(&i.frac), i.exp)
}
fn dec_inp(s: &str) -> Inp {
    let p: Vec<&str> = s.split(':').collect();
    Inp { int: crate::rle_arg_pub(p[0]), frac: crate::rle_arg_pub(p[1]), exp: p[2].parse().unwrap() }
}

/// Replay of a history: paint, call the prefix inputs, then the last one; compare with a fresh thread.
pub fn c16_one(rest: &[String]) -> ! {
    let i = dec_inp(&rest[0]);
    println!("BITS {:x} {:x}", base_bits::<f32>(&i), base_bits::<f64>(&i));
    std::process::exit(0)
}

pub fn replay_c16(rest: &[String]) -> ! {
    if rest[0] == "process" {
        // the whole exploration is the history; re-run it and report whether any process-state dependence shows
        let a = Args { prop: "c16".into(), thorough: false, seed: 0, hard: None, replay: None, rest: vec![] };
        let (st, _) = c16(&a);
        let n = st.violations.iter().filter(|v| v.kind == "history-dependence").count();
        println!("REPLAY cfg={} process-state dependence: {}", real::cfg_name(), if n > 0 { "some call differs from the one-call-process result" } else { "none" });
        std::process::exit(if n == 0 { 0 } else { 1 })
    }
    if rest[0] == "hammer" {
        // re-run the whole check's concurrent part: a race is only reproduced statistically
        let a = Args { prop: "c16".into(), thorough: false, seed: 0, hard: None, replay: None, rest: vec![] };
        let (st, _) = c16(&a);
        let n = st.violations.iter().filter(|v| v.kind == "concurrent-callers").count();
        println!("REPLAY cfg={} concurrent callers: {}", real::cfg_name(), if n > 0 { "some thread saw a result that differs from the sequential one" } else { "all results equal the sequential ones" });
        std::process::exit(if n == 0 { 0 } else { 1 })
    }
    match rest[0].as_str() {
        "history" => {
            let paint: u8 = rest[1].parse().unwrap();
            let inputs: Vec<Inp> = rest[2..].iter().map(|s| dec_inp(s)).collect();
            let last = inputs.last().unwrap();
            let want = fresh_thread_bits(last);
            for i in &inputs[..inputs.len() - 1] {
                paint_stack(paint);
                let _ = (base_bits::<f32>(i), base_bits::<f64>(i));
            }
            paint_stack(paint);
            let got = (base_bits::<f32>(last), base_bits::<f64>(last));
            println!("REPLAY cfg={} history of {} calls, paint {:#x}: last call gives {:x?}, on a fresh thread {:x?} ok={}", real::cfg_name(), inputs.len(), paint, got, want, got == want);
            std::process::exit(if got == want { 0 } else { 1 })
        },
        _ => {
            // shape replay: re-run every shape for the input
            let inp = dec_inp(&rest[1]);
            let mut n = 0;
            let b32 = shapes::<f32>(&inp, base_bits::<f32>(&inp), &mut n);
            let b64 = shapes::<f64>(&inp, base_bits::<f64>(&inp), &mut n);
            println!("REPLAY cfg={} iterator shapes on {}: f32 disagreements {:x?}, f64 disagreements {:x?}", real::cfg_name(), show(&inp), b32, b64);
            std::process::exit(if b32.is_empty() && b64.is_empty() { 0 } else { 1 })
        },
    }
}

pub fn c16(a: &Args) -> (Stats, String) {
    let small = a.rest.iter().any(|x| x == "--small");
    PAINT_OFF.store(small, std::sync::atomic::Ordering::Relaxed);
    let alphabet = if small {
        // slow monitors (Miri): a fixed hand list with one input per path class
        let mk = |i: &str, f: &str, e: i32| Inp { int: i.as_bytes().to_vec(), frac: f.as_bytes().to_vec(), exp: e };
        vec![
            mk("", "", 0),
            mk("15", "", -1),
            mk("123", "", 30),
            mk("9007199254740993", "", 0),
            mk("1", "00000000000000000000001", 0),
            mk("9007199254740993", "0000000001", 0),
            mk("17976931348623158079372897140530341507993413271003782693617377898044496829276475094664901797758720709633028641669288791094655554785194040263065748867150582068", "9", 150),
            mk("2", "4703282292062327208051355972539062", -324),
            mk("12345000000000000218930239", "", 200),
            mk("47299799766906385947263424561840503652352", "", 140),
            mk("16777217", "0000000000001", 0),
            mk("1", "", 400),
        ]
        .into_iter()
        .chain(gap_from_args(a))
        .collect::<Vec<Inp>>()
    } else {
        base_alphabet(a.seed, a.hard.as_deref())
    };
    let base = std::sync::Arc::new(alphabet);
    let nb = base.len();
    let mut reps: Vec<String> = Vec::new();
    // reference results: each input parsed in a process of its own (`mlx c16-one`), so that state that
    // survives between calls in a process (a static cache, a scratch static) cannot leak into the reference;
    // under the slow monitors (no process spawning) each on a fresh thread
    let mut st = Stats::default();
    let refs: Vec<(u64, u64)> = if small {
        base.iter().map(fresh_thread_bits).collect()
    } else {
        let exe = std::env::current_exe().expect("current_exe");
        let out: Vec<Option<(u64, u64)>> = std::thread::scope(|sc| {
            let hs: Vec<_> = base
                .chunks((nb + 15) / 16)
                .map(|chunk| {
                    let exe = exe.clone();
                    sc.spawn(move || {
                        chunk
                            .iter()
                            .map(|i| {
                                let o = std::process::Command::new(&exe).arg("c16-one").arg(enc_inp(i)).output().ok()?;
                                let t = String::from_utf8_lossy(&o.stdout).to_string();
                                let mut it = t.split_whitespace();
                                if it.next()? != "BITS" {
                                    return None;
                                }
                                Some((u64::from_str_radix(it.next()?, 16).ok()?, u64::from_str_radix(it.next()?, 16).ok()?))
                            })
                            .collect::<Vec<_>>()
                    })
                })
                .collect();
            hs.into_iter().flat_map(|h| h.join().unwrap()).collect()
        });
        let mut v = Vec::new();
        for (k, o) in out.into_iter().enumerate() {
            match o {
                Some(b) => v.push(b),
                None => {
                    st.machinery(format!("reference process failed for {}", show(&base[k])));
                    v.push(fresh_thread_bits(&base[k]));
                }
            }
        }
        // the same inputs on fresh threads of this (by now well used) process must agree with the one-call processes
        for (k, i) in base.iter().enumerate() {
            let got = fresh_thread_bits(i);
            st.calls += 2;
            if got != v[k] {
                st.violation(api_violation(
                    "history-dependence",
                    "-",
                    format!("{} after the earlier calls of this process (fresh thread)", show(i)),
                    format!("{:x?}", got),
                    format!("{:x?} (the same input in a process of its own)", v[k]),
                    vec!["replay-c16".into(), "process".into(), enc_inp(i)],
                ));
            }
        }
        v
    };
    let refs = std::sync::Arc::new(refs);

    // 1 + 2: iterator shapes and addresses
    let t = Timer::new();
    let dummy: Vec<Job> = (0..(if small { nb.min(4) } else { nb })).map(|_| -> Job { Box::new(|_e: &mut fam::Emit| {}) }).collect();
    let (b2, r2) = (base.clone(), refs.clone());
    let s1 = run_jobs(
        &dummy,
        |_s, _j, _c| {},
        move |st, j| {
            let inp = &b2[j];
            st.cases += 1;
            st.nontrivial += 1;
            let mut n = 0u64;
            let mut bad: Vec<(String, u64, &'static str, u64)> = Vec::new();
            for (name, got) in shapes::<f32>(inp, r2[j].0, &mut n) {
                bad.push((name, got, "f32", r2[j].0));
            }
            for (name, got) in shapes::<f64>(inp, r2[j].1, &mut n) {
                bad.push((name, got, "f64", r2[j].1));
            }
            st.calls += n;
            st.add("shape_calls", n);
            for (name, got, fmt, want) in bad.into_iter().take(3) {
                st.violation(api_violation(
                    "iterator-shape",
                    fmt,
                    format!("{} through {}", show(inp), name),
                    format!("{:#x}", got),
                    format!("{:#x} (slice iterators on a fresh thread)", want),
                    vec!["replay-c16".into(), "shape".into(), enc_inp(inp)],
                ));
            }
        },
    );
    reps.push(format!("{{\"family\":\"iterator shapes + addresses on {} base inputs\",\"calls\":{},\"wall_s\":{:.2}}}", nb, s1.calls, t.secs()));
    st.merge(s1);

    // 3: histories: all ordered pairs over the first 40 (+ every path class), triples over 12; three paints
    let t = Timer::new();
    let np = nb;
    let nt = if small { 0 } else if a.thorough { 45 } else { 21 };
    // pick indices spread over the alphabet, but always include the trailing hand-picked long-multiplication inputs
    let pick = |k: usize| -> Vec<usize> {
        let tail = TAIL.min(nb);
        let mut v: Vec<usize> = (0..k.saturating_sub(tail)).map(|i| i * (nb - tail) / k.max(1)).collect();
        if k > 0 {
            v.extend(nb - tail..nb);
        }
        v.sort();
        v.dedup();
        v
    };
    // slow monitors: pairs over the first six (short) inputs, and every input once on its own
    let pidx = if small { (0..nb.min(6)).collect() } else { pick(np) };
    let tidx = pick(nt);
    let mut specs: Vec<Vec<usize>> = Vec::new();
    for &x in &pidx {
        for &y in &pidx {
            specs.push(vec![x, y]);
        }
    }
    if small {
        for x in 0..nb {
            specs.push(vec![x]);
        }
    }
    for &x in &tidx {
        for &y in &tidx {
            for &z in &tidx {
                specs.push(vec![x, y, z]);
            }
        }
    }
    let specs = std::sync::Arc::new(specs);
    let nchunks = (specs.len() + 255) / 256;
    let dummy: Vec<Job> = (0..nchunks).map(|_| -> Job { Box::new(|_e: &mut fam::Emit| {}) }).collect();
    let (b3, r3, sp) = (base.clone(), refs.clone(), specs.clone());
    let s2 = run_jobs(
        &dummy,
        |_s, _j, _c| {},
        move |st, j| {
            for h in &sp[j * 256..((j + 1) * 256).min(sp.len())] {
                for paint in [0x00u8, 0xFF, 0xA5].into_iter().take(if PAINT_OFF.load(std::sync::atomic::Ordering::Relaxed) { 1 } else { 3 }) {
                    st.cases += 1;
                    st.nontrivial += 1;
                    for &k in &h[..h.len() - 1] {
                        paint_stack(paint);
                        let _ = (base_bits::<f32>(&b3[k]), base_bits::<f64>(&b3[k]));
                        st.calls += 2;
                    }
                    paint_stack(paint);
                    let last = *h.last().unwrap();
                    let got = (base_bits::<f32>(&b3[last]), base_bits::<f64>(&b3[last]));
                    st.calls += 2;
                    if got != r3[last] {
                        let mut argv = vec!["replay-c16".to_string(), "history".into(), paint.to_string()];
                        argv.extend(h.iter().map(|&k| enc_inp(&b3[k])));
                        st.violation(api_violation(
                            "history-dependence",
                            "-",
                            format!("after {} the call {} (stack painted {:#04x})", h[..h.len() - 1].iter().map(|&k| show(&b3[k])).collect::<Vec<_>>().join(" ; "), show(&b3[last]), paint),
                            format!("{:x?}", got),
                            format!("{:x?} (same input on a fresh thread)", r3[last]),
                            argv,
                        ));
                    }
                }
            }
        },
    );
    reps.push(format!("{{\"family\":\"histories: {}^2 pairs + {}^3 triples x 3 stack paints\",\"cases\":{},\"wall_s\":{:.2}}}", pidx.len(), tidx.len(), s2.cases, t.secs()));
    st.merge(s2);

    // 4b: free-running threads (race premise): 16 threads, rotated orders, results against the sequential ones
    let t = Timer::new();
    let rounds = if small { 1 } else if a.thorough { 40 } else { 6 };
    let mut hs = Vec::new();
    for tid in 0..(if small { 2usize } else { 16 }) {
        let (b4, r4) = (base.clone(), refs.clone());
        hs.push(std::thread::spawn(move || {
            let mut bad: Vec<usize> = Vec::new();
            let mut calls = 0u64;
            for r in 0..rounds {
                for k in 0..b4.len() {
                    let idx = (k * (2 * tid + 1) + r * 7 + tid) % b4.len();
                    let got = (base_bits::<f32>(&b4[idx]), base_bits::<f64>(&b4[idx]));
                    calls += 2;
                    if got != r4[idx] {
                        bad.push(idx);
                    }
                }
            }
            (bad, calls)
        }));
    }
    let mut s3 = Stats::default();
    for h in hs {
        let (bad, calls) = h.join().unwrap();
        s3.calls += calls;
        s3.cases += 1;
        for idx in bad.into_iter().take(2) {
            s3.violation(api_violation(
                "concurrent-callers",
                "-",
                format!("{} called from 16 free-running threads", show(&base[idx])),
                "differs from the sequential result".into(),
                format!("{:x?}", refs[idx]),
                vec!["replay-c16".into(), "shape".into(), enc_inp(&base[idx])],
            ));
        }
    }
    reps.push(format!("{{\"family\":\"16 free-running std threads x {} rounds over the alphabet\",\"calls\":{},\"wall_s\":{:.2}}}", rounds, s3.calls, t.secs()));
    st.merge(s3);

    // 4c: fast-path hammer. Short inputs with every fast-path exponent of both formats, called from 16
    // free-running threads in different orders; any state shared between calls (a cache, a scratch static)
    // shows up as a result that differs from the sequential one. This is a stress pass over schedules
    // (sampling, not enumeration): it checks the independence premise of the loom exploration.
    if !small {
        let t = Timer::new();
        let mut tab: Vec<Inp> = Vec::new();
        for d in ["1", "3", "7", "12345", "16777215", "9007199254740991"] {
            for q in -22..=37 {
                tab.push(Inp { int: d.as_bytes().to_vec(), frac: vec![], exp: q });
            }
        }
        let want: Vec<(u64, u64)> = tab.iter().map(|i| (base_bits::<f32>(i), base_bits::<f64>(i))).collect();
        let (tab, want) = (std::sync::Arc::new(tab), std::sync::Arc::new(want));
        let iters: usize = if a.thorough { 4_000_000 } else { 400_000 };
        let mut hs = Vec::new();
        for tid in 0..16usize {
            let (tab, want) = (tab.clone(), want.clone());
            hs.push(std::thread::spawn(move || {
                let n = tab.len();
                let mut bad: Option<usize> = None;
                let mut k = tid * 17;
                for it in 0..iters {
                    k = (k + 2 * tid + 1 + (it & 3)) % n;
                    let i = &tab[k];
                    // alternate the format order so that f32 and f64 calls interleave across threads
                    let got = if (it + tid) & 1 == 0 {
                        let a = base_bits::<f32>(i);
                        (a, base_bits::<f64>(i))
                    } else {
                        let b = base_bits::<f64>(i);
                        (base_bits::<f32>(i), b)
                    };
                    if got != want[k] && bad.is_none() {
                        bad = Some(k);
                    }
                }
                (bad, 2 * iters as u64)
            }));
        }
        let mut s4 = Stats::default();
        for h in hs {
            let (bad, calls) = h.join().unwrap();
            s4.calls += calls;
            s4.cases += 1;
            if let Some(k) = bad {
                s4.violation(api_violation(
                    "concurrent-callers",
                    "-",
                    format!("{} called from 16 free-running threads (fast-path hammer)", show(&tab[k])),
                    "differs from the sequential result".into(),
                    format!("{:x?}", want[k]),
                    vec!["replay-c16".into(), "hammer".into()],
                ));
            }
        }
        reps.push(format!("{{\"family\":\"fast-path hammer: 16 threads x {} iterations over 360 short inputs\",\"calls\":{},\"wall_s\":{:.2}}}", iters, s4.calls, t.secs()));
        st.merge(s4);
    }
    st.sample(format!("Chain split / Filter / VecDeque / DeepIter shapes on {}", show(&base[nb / 2])));
    st.sample(format!("history: {} ; {} with the stack painted 0xA5", show(&base[nb - 2]), show(&base[nb - 4])));
    (st, format!("\"base_inputs\":{},\"families\":[{}]", nb, reps.join(",")))
}

// ---------------------------------------------------------------------------
// C08 arbitrary bytes
// ---------------------------------------------------------------------------

pub const BYTE_CLASSES: [u8; 8] = [0x00, b'/', b'0', b'1', b'9', b':', 0x7F, 0xFF];

pub fn bytes_strings(k: usize) -> Vec<Vec<u8>> {
    let mut out: Vec<Vec<u8>> = vec![vec![]];
    let mut prev: Vec<Vec<u8>> = vec![vec![]];
    for _ in 0..k {
        let mut next = Vec::new();
        for p in &prev {
            for &c in &BYTE_CLASSES {
                let mut v = p.clone();
                v.push(c);
                next.push(v);
            }
        }
        out.extend(next.iter().cloned());
        prev = next;
    }
    out
}

pub fn fillers(max_len: usize) -> Vec<Vec<u8>> {
    let mut out = Vec::new();
    for &len in &[19usize, 20, 21, 40, 120, 800, 10_000] {
        if len > max_len {
            continue;
        }
        for &c in &BYTE_CLASSES {
            out.push(vec![c; len]);
            // one foreign byte at every 97th position
            for &fg in &[0x00u8, b'5', 0xFF] {
                if fg == c {
                    continue;
                }
                let mut pos = 0;
                while pos < len {
                    let mut v = vec![c; len];
                    v[pos] = fg;
                    out.push(v);
                    pos += 97;
                }
            }
        }
    }
    out
}

pub const C08_EXPS: [i32; 8] = [0, 20, -20, 330, -330, 400, i32::MIN, i32::MAX];

/// One garbage call; outcome classes: value / unwinding panic. Anything else kills the process
/// (ASan report, UB-precondition abort, signal) and is observed by the driver.
fn c08_call(st: &mut Stats, i: &[u8], f: &[u8], e: i32) {
    for is32 in [false, true] {
        st.calls += 1;
        let r = if is32 { real::parse::<f32>(i, f, e) } else { real::parse::<f64>(i, f, e) };
        match r {
            Ok(_) => st.bump("outcome_value"),
            Err(_) => st.bump("outcome_clean_panic"),
        }
    }
}

pub fn c08(a: &Args) -> (Stats, String) {
    let t = Timer::new();
    // reduced family for slow monitors (Miri): --level N selects BYTES(N); default 3 (2 under `--small`)
    let small = a.rest.iter().any(|x| x == "--small");
    let shard: Option<(usize, usize)> = a.rest.iter().position(|x| x == "--shard").map(|p| {
        let (x, y) = a.rest[p + 1].split_once('/').unwrap();
        (x.parse().unwrap(), y.parse().unwrap())
    });
    let trace = a.rest.iter().any(|x| x == "--trace");
    let k = if small { if a.thorough { 2 } else { 1 } } else { 3 };
    let strs = std::sync::Arc::new(bytes_strings(k));
    let fill = std::sync::Arc::new(if small {
        // slow monitors: constant fillers and one foreign byte at a single position
        let mut v: Vec<Vec<u8>> = Vec::new();
        for &len in &[19usize, 20, 21, 40, 120, 800] {
            for &c in &BYTE_CLASSES {
                if len == 800 && !(c == b'9' || c == 0xFF || c == b':') {
                    continue;
                }
                v.push(vec![c; len]);
                if len <= 40 {
                    let mut w = vec![c; len];
                    w[len - 1] = if c == 0xFF { b'5' } else { 0xFF };
                    v.push(w);
                }
            }
        }
        v
    } else {
        fillers(10_000)
    });
    let n = strs.len();
    let nf = fill.len();
    let njobs = n + nf;
    let dummy: Vec<Job> = (0..njobs).map(|_| -> Job { Box::new(|_e: &mut fam::Emit| {}) }).collect();
    let exps: Vec<i32> = if small { vec![0, -330, 400] } else { C08_EXPS.to_vec() };
    let st = run_jobs(
        &dummy,
        |_s, _j, _c| {},
        |st, j| {
            if let Some((x, y)) = shard {
                if j % y != x {
                    return;
                }
            }
            if trace {
                eprintln!("JOB {}", j);
            }
            if j < n {
                let i = &strs[j];
                for f in strs.iter() {
                    for &e in &exps {
                        st.cases += 1;
                        if i.len() + f.len() > 0 {
                            st.nontrivial += 1;
                        }
                        c08_call(st, i, f, e);
                    }
                }
            } else {
                let x = &fill[j - n];
                for &e in &exps {
                    let all = [(&x[..], &b""[..]), (&b""[..], &x[..]), (&x[..x.len() / 2], &x[x.len() / 2..]), (&b"1"[..], &x[..]), (&x[..], &b"1"[..])];
                    for (i, f) in all.into_iter().take(if small { 3 } else { 5 }) {
                        st.cases += 1;
                        st.nontrivial += 1;
                        c08_call(st, i, f, e);
                    }
                }
            }
        },
    );
    let mut st = st;
    // valid-digit slice: the inputs that reach the big-integer and table-indexing code (near-halfway cases at every
    // decimal exponent, zero-limb runs, IEEE thresholds, deciding digits at every cut-off), under the same monitors
    let mut valid_cases = 0u64;
    if let (Some(h), false) = (&a.hard, small) {
        let mut jobs: Vec<Job> = Vec::new();
        jobs.extend(crate::hard_jobs(h, fam::MBOTH));
        jobs.extend(crate::gap_jobs(h));
        jobs.extend(fam::boundary_deep(F64, 64, a.seed, 769, false));
        jobs.extend(fam::boundary_deep(F32, 16, a.seed, 114, false));
        jobs.extend(fam::threshold_family(F64, false));
        jobs.extend(fam::threshold_family(F32, false));
        jobs.extend(fam::extreme(false));
        let st2 = run_jobs(
            &jobs,
            |st, _j, c: &Case| {
                st.cases += 1;
                st.nontrivial += 1;
                c08_call(st, c.int, c.frac, c.exp);
            },
            |_s, _j| {},
        );
        valid_cases = st2.cases;
        st.merge(st2);
    }
    st.add("valid_digit_slice_cases", valid_cases);
    st.sample("int=[0xFF,'0',':'] frac=['/',0x00] exp=-330".into());
    st.sample("int=[0x7F x 800 with 0xFF at position 97] frac=[] exp=i32::MIN".into());
    st.sample("int=[] frac=[':' x 10000] exp=400".into());
    (
        st,
        format!(
            "\"debug_assertions\":{},\"bytes_level\":{},\"strings\":{},\"fillers\":{},\"families\":[{{\"family\":\"BYTES({})^2 x {} exponents + fillers, f32 and f64\",\"wall_s\":{:.2}}}]",
            cfg!(debug_assertions),
            k,
            n,
            nf,
            k,
            exps.len(),
            t.secs()
        ),
    )
}

/// Single garbage call for replay.
pub fn replay_c08(rest: &[String]) -> ! {
    let inp = dec_inp(&rest[0]);
    let mut st = Stats::default();
    c08_call(&mut st, &inp.int, &inp.frac, inp.exp);
    println!("REPLAY cfg={} garbage call survived: {:?}", real::cfg_name(), st.counters);
    std::process::exit(0)
}

