//! Copies the seven shipped copies of the string front-end out of the staged repository into
//! modules of this crate (C19). Only two edits are made, and both are asserted: everything after
//! the end of `parse_float` (main, tests, tool code) and everything before the first helper is cut,
//! and `parse_float` is made `pub`.
use std::{env, fs, path::PathBuf};

const COPIES: [&str; 7] = [
    "examples/simple.rs",
    "fuzz/fuzz_targets/parse.rs",
    "tests/integration_tests.rs",
    "etc/correctness/rng-tests/_common.rs",
    "etc/correctness/test-parse-random/_common.rs",
    "etc/correctness/test-parse-golang/main.rs",
    "etc/correctness/test-parse-unittests/main.rs",
];

fn main() {
    let manifest = PathBuf::from(env::var("CARGO_MANIFEST_DIR").unwrap());
    let repo = manifest.join("../../target/stage/repo");
    let out = PathBuf::from(env::var("OUT_DIR").unwrap());
    let mut index = String::new();
    for (i, rel) in COPIES.iter().enumerate() {
        let path = repo.join(rel);
        println!("cargo:rerun-if-changed={}", path.display());
        let text = fs::read_to_string(&path).unwrap_or_else(|e| panic!("front-end copy {} unreadable: {}", path.display(), e));
        let lines: Vec<&str> = text.lines().collect();
        // first helper: the line declaring parse_sign, plus its attributes / doc comments
        let mut start = lines.iter().position(|l| l.contains("fn parse_sign")).unwrap_or_else(|| panic!("{}: no parse_sign", rel));
        while start > 0 && (lines[start - 1].starts_with("#[") || lines[start - 1].starts_with("///")) {
            start -= 1;
        }
        let pf = lines.iter().position(|l| l.contains("fn parse_float<")).unwrap_or_else(|| panic!("{}: no parse_float", rel));
        assert!(pf > start, "{}: parse_float precedes the helpers", rel);
        let end = (pf..lines.len()).find(|&k| lines[k] == "}").unwrap_or_else(|| panic!("{}: parse_float has no end", rel));
        let mut body: Vec<String> = lines[start..=end].iter().map(|s| s.to_string()).collect();
        let k = pf - start;
        if !body[k].trim_start().starts_with("pub ") {
            body[k] = format!("pub {}", body[k]);
        }
        let joined = body.join("\n");
        assert_eq!(joined.matches("fn parse_float<").count(), 1, "{}: parse_float must occur once", rel);
        assert_eq!(joined.matches("minimal_lexical::parse_float(").count(), 1, "{}: exactly one library call expected", rel);
        assert!(!joined.contains("fn main"), "{}: cut went too far", rel);
        fs::write(out.join(format!("fe_{}.rs", i)), joined + "\n").unwrap();
        index.push_str(&format!("    {:?},\n", rel));
    }
    fs::write(out.join("fe_index.rs"), format!("pub const FE_PATHS: [&str; 7] = [\n{}];\n", index)).unwrap();
}
