#!/usr/bin/env python3
"""Regenerate MANIFEST.json from bin/props.py (the single source of truth for what is claimed)."""
import json, os, sys
here = os.path.dirname(os.path.abspath(__file__))
sys.path.insert(0, here)
from props import PROPS, MANIFEST_TEXT, NOT_APPLICABLE  # noqa
VERIF = os.path.dirname(here)
ids = [json.loads(l)["id"] for l in open(os.path.join(VERIF, "properties.jsonl"))]
checks = []
for pid in ids:
    if pid not in PROPS:
        continue
    t = MANIFEST_TEXT[pid]
    checks.append({
        "property_id": pid,
        "quick_cmd": f"bin/check {pid} --tier quick",
        "thorough_cmd": f"bin/check {pid} --tier thorough",
        "evidence_file": f"/verif/evidence/{pid}.json",
        "replay_cmd_template": "bin/check --replay {path}",
        "engine": t.get("engine", "mlx"),
        "level_claimed": {"category": "model_checking", "text": t["level"], "design_ref": t["design_ref"]},
        "level_note": t["note"],
        "technique": t["technique"],
    })
na = [{"property_id": p, "reason": NOT_APPLICABLE.get(p, "check not built yet in this round; see DESIGN.md section 4 for the planned decision procedure")}
      for p in ids if p not in PROPS]
man = {
    "version": 1,
    "setup_cmd": "bin/check --setup",
    "hooks": {
        "guard": "cargo feature `verif` of minimal-lexical (off by default)",
        "enable": "the harness crate depends on the staged copy of /repo with features = [\"verif\"]; e.g. cargo build --features verif",
        "baseline_off_cmd": "cd /repo && cargo test --workspace --no-fail-fast --offline",
        "source_commits": ["96244afee0f6b59386329f71192dddfaf61d5ed8"],
        "add_only": True,
    },
    "engines": [
        {"name": "mlx", "path": "harness/mlx", "serves_properties": [c["property_id"] for c in checks],
         "kind_free_text": "bounded-exhaustive explorer: enumerates named finite input / operation / history families and executes every member on the real compiled crate in each feature configuration, judged by reference models from harness/core (exact naturals, rounding-interval oracle, reference vector)"},
        {"name": "hardcases.py", "path": "gen/hardcases.py", "serves_properties": ["C01", "C02", "C11"],
         "kind_free_text": "exact (python int) generator of number-theoretic hard cases: exact ties, closest approaches (modular inverse / 2-D lattice reduction), straddling truncations, Eisel-Lemire low-word and second-multiplication cases; generator only, verdicts come from the oracle"},
    ],
    "checks": checks,
    "notes": "All checks: bin/check <ID> --tier quick|thorough; exit 0 held / 1 VIOLATION lines / 2 machinery failure. Seeds (VERIF_SEED) only rotate which additional complete slice is enumerated; nothing is sampled.",
    "not_applicable": na,
}
json.dump(man, open(os.path.join(VERIF, "MANIFEST.json"), "w"), indent=1)
print(f"MANIFEST.json: {len(checks)} checks, {len(na)} not_applicable")
