"""C05: all feature configurations return bit-identical results (digest comparison across 8 builds)."""
import json, subprocess, sys, time


def parse_rle(s):
    if s == "-":
        return []
    return [[int(a), int(b)] for a, b in (p.split("x") for p in s.split(","))]


def main(chk, prop, spec, tier, seed):
    t0 = time.time()
    cfgs = spec["cfgs"]
    with chk.Lock():
        sha = chk.stage()
        chk.build(cfgs, "release")
        hard = chk.ensure_hard()
    known = chk.load_known()
    base_argv = ["c05", "--tier", tier, "--seed", str(seed), "--hard", hard]
    results = {}
    for cfg in cfgs:
        res = chk.run_mlx(cfg, "release", base_argv, timeout=7200)
        results[(cfg, "release")] = res
        chk.log(f"[C05] cfg={cfg} cases={res['cases']} calls={res['calls']} jobs={len(res['digests'])} wall={res['_wall']:.1f}s")
    ref_cfg = cfgs[0]
    ref = dict((j, d) for j, d in results[(ref_cfg, "release")]["digests"])
    extra_viol = []
    mach = []
    differing_jobs = 0
    for cfg in cfgs[1:]:
        cur = dict((j, d) for j, d in results[(cfg, "release")]["digests"])
        if set(cur) != set(ref):
            mach.append(f"job sets differ between {ref_cfg} and {cfg}: the families are not configuration independent")
            continue
        bad = sorted(j for j in ref if ref[j] != cur[j])
        differing_jobs += len(bad)
        for j in bad[:3]:
            dumps = []
            for c in (ref_cfg, cfg):
                r = subprocess.run([chk.bin_path(c, "release")] + base_argv + ["--dump-job", str(j)], capture_output=True, text=True, env=chk.ENV)
                dumps.append([l.split() for l in r.stdout.splitlines() if l.startswith("CASE ")])
            if len(dumps[0]) != len(dumps[1]):
                mach.append(f"dump of job {j} has different lengths in {ref_cfg} and {cfg}")
                continue
            n = 0
            for a, b in zip(dumps[0], dumps[1]):
                if a[1:4] != b[1:4]:
                    mach.append(f"dump of job {j}: case order differs between configurations")
                    break
                for col, fmt in ((4, "f32"), (5, "f64")):
                    if a[col] != b[col] and n < 4:
                        n += 1
                        # which configuration is wrong? ask the exact oracle in each
                        wrong = []
                        for c in (ref_cfg, cfg):
                            rr = subprocess.run([chk.bin_path(c, "release"), "replay-parse", fmt, a[3], a[1], a[2]], capture_output=True, text=True, env=chk.ENV)
                            if rr.returncode != 0:
                                wrong.append((c, rr.stdout.strip()))
                        wc = wrong[0][0] if wrong else cfg
                        v = {"kind": "configurations-differ", "fmt": fmt, "int": parse_rle(a[1]), "frac": parse_rle(a[2]), "exp": int(a[3]),
                             "got": f"{ref_cfg}=0x{a[col]} {cfg}=0x{b[col]}", "want": "identical bits (" + "; ".join(w[1] for w in wrong) + ")",
                             "fam": f"job {j}", "cfg": wc, "show": (wrong[0][1] if wrong else f"job {j}")}
                        path = chk.write_replay(prop, wc, "release", v, len(extra_viol))
                        extra_viol.append((path, v))
    for m in mach:
        results[(ref_cfg, "release")].setdefault("machinery", []).append(m)
    cov = {"digest_jobs": len(ref), "jobs_with_differing_digests": differing_jobs,
           "comparison": f"64-bit digest of (input, f32 bits, f64 bits) per job, every configuration against {ref_cfg}"}
    for r in results.values():
        r.pop("digests", None)
    chk.finish(prop, spec, tier, seed, sha, results, known, t0, extra_cov=cov, extra_viol=extra_viol)
