"""C16: the result is a pure function of the bytes and the exponent.

Four explorations (DESIGN.md 4/C16): iterator shapes + addresses, call histories with stack painting,
call-level schedules under loom, and the independence premise on free-running threads / Miri's race detector."""
import concurrent.futures, os, subprocess, time


def build_loom(chk, feats):
    procs = []
    for name, f in feats:
        cmd = ["cargo", "build", "--offline", "--release", "--manifest-path", os.path.join(chk.VERIF, "harness", "loomc16", "Cargo.toml")]
        if f:
            cmd += ["--features", f]
        env = dict(chk.ENV, CARGO_TARGET_DIR=os.path.join(chk.TARGET, "loom-" + name))
        procs.append((name, subprocess.Popen(cmd, env=env, stdout=subprocess.PIPE, stderr=subprocess.STDOUT, text=True)))
    for name, p in procs:
        out, _ = p.communicate()
        if p.returncode != 0:
            chk.log(out[-4000:])
            chk.machinery(f"loom harness build failed ({name})")


def main(chk, prop, spec, tier, seed):
    t0 = time.time()
    cfgs = spec["cfgs"]
    loom_feats = [("D", "")] if tier == "quick" else [("D", ""), ("C", "compact"), ("A", "alloc")]
    miri_seeds = range(2) if tier == "quick" else range(8)
    with chk.Lock():
        sha = chk.stage()
        chk.build(cfgs, "release")
        chk.build(["D"], "dbg")
        build_loom(chk, loom_feats)
        chk.build_variants([("D", "miri")])
        hard = chk.ensure_hard()
    known = chk.load_known()
    results = {}
    extra_viol = []
    argv = ["c16", "--tier", tier, "--seed", str(seed), "--hard", hard]
    for cfg, prof in [(c, "release") for c in cfgs] + [("D", "dbg")]:
        res, rc, out, err = chk.run_variant(cfg, prof, argv, timeout=3600)
        if res is None or rc != 0:
            # the engine died while exploring shapes / histories / concurrent callers: calls did not return what
            # sequential calls return. Try again with a single worker thread to say which phase it is.
            res1, rc1, _, err1 = chk.run_variant(cfg, prof, argv, timeout=3600, env_extra={"MLX_THREADS": "1"})
            phase = "only with concurrent callers (the single-worker run survives up to the free-running threads)" if (res1 is None or rc1 != 0) else "only when several worker threads call the parser concurrently"
            last = (err.strip().splitlines() or ["(no message)"])[-1][:300]
            v = {"kind": "engine-died", "fmt": "-", "cfg": cfg, "show": f"c16 exploration in configuration {cfg}/{prof}: the engine process died (status {rc}), {phase}",
                 "got": last, "want": "every call returns the sequential result", "replay_argv": ["replay-c16", "hammer"], "fam": "c16"}
            path = chk.write_replay(prop, cfg, prof, v, len(extra_viol))
            extra_viol.append((path, v))
            chk.log(f"[C16] cfg={cfg} profile={prof}: engine died (status {rc})")
            continue
        res["_wall"] = res.get("wall_s", 0.0)
        res["_exit"] = 0
        results[(cfg, prof)] = res
        chk.log(f"[C16] cfg={cfg} profile={prof} cases={res['cases']} calls={res['calls']} nviol={res['nviol']} wall={res['_wall']:.1f}s")
    # loom: every call-level interleaving
    loom = {}
    for name, f in loom_feats:
        binp = os.path.join(chk.TARGET, "loom-" + name, "release", "loomc16")
        r = subprocess.run([binp], capture_output=True, text=True, env=chk.ENV, timeout=1800)
        lines = [l for l in r.stdout.splitlines() if l.startswith("LOOM ")]
        loom[name] = lines
        if r.returncode != 0:
            v = {"kind": "schedule-dependence", "fmt": "-", "cfg": name, "show": "loom harness: a call-level interleaving of concurrent callers changed a result (or the model panicked)",
                 "got": (r.stdout + r.stderr).strip().splitlines()[-1][:300] if (r.stdout + r.stderr).strip() else "exit %d" % r.returncode,
                 "want": "sequential results in every interleaving", "replay_argv": ["loom"], "fam": "loom"}
            path = chk.write_replay(prop, name, "loom", v, len(extra_viol))
            extra_viol.append((path, v))
        chk.log(f"[C16] loom {name}: " + " | ".join(l[5:] for l in lines))
    # Miri: uninitialised reads in histories, data races between two free-running callers, several schedules
    def run_seed(s):
        return s, chk.run_variant("D", "miri", ["c16", "--small", "--gap", chk.longest_gap()], timeout=3600, miri_seed=s)
    miri_cases = 0
    with concurrent.futures.ThreadPoolExecutor(max_workers=8) as ex:
        for s, (res, rc, out, err) in ex.map(run_seed, miri_seeds):
            if res is None or rc != 0:
                msg = [l for l in err.splitlines() if "Undefined Behavior" in l or "Data race" in l or "error" in l]
                v = {"kind": "miri-error", "fmt": "-", "cfg": "D", "show": f"c16 --small under Miri (seed {s})", "got": (msg[0] if msg else f"exit {rc}")[:300],
                     "want": "no uninitialised read, no data race", "replay_argv": ["c16", "--small", "--gap", chk.longest_gap()], "fam": "miri"}
                path = chk.write_replay(prop, "D", "miri", v, len(extra_viol))
                extra_viol.append((path, v))
                continue
            miri_cases += res.get("cases", 0)
            for v in res.get("violations", [])[:2]:
                v["cfg"] = "D"
                path = chk.write_replay(prop, "D", "miri", v, len(extra_viol))
                extra_viol.append((path, v))
    chk.log(f"[C16] Miri: {len(list(miri_seeds))} schedule seeds, {miri_cases} cases")
    if not results:
        results[("D", "release")] = {"cases": 1, "calls": 1, "machinery": [], "violations": []}
    cov = {"loom": loom, "miri_seeds": len(list(miri_seeds)), "miri_cases": miri_cases,
           "not_exhaustive_parts": "the free-running 16-thread passes (alphabet in rotated orders, fast-path hammer) and the Miri schedule seeds sample schedules; they check the independence premise and are not counted as exhaustive. Exhaustive parts: iterator shapes/addresses and call histories over the stated alphabet, loom call-level interleavings.",
           "schedule_granularity": "call level (the crate has no synchronisation operations); finer interleavings by independence, premise checked by 16 free-running threads and Miri's data-race detector"}
    chk.finish(prop, spec, tier, seed, sha, results, known, t0, extra_cov=cov, extra_viol=extra_viol)
