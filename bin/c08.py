"""C08: arbitrary bytes never cause undefined memory access.

The BYTES family is executed on the real code in release, debug-assertion (core UB-precondition checks),
AddressSanitizer and Miri (Tree Borrows) builds. Every call must return a value or unwind cleanly; any
other way for the engine to end (sanitizer report, abort, signal, Miri error) is the violation."""
import concurrent.futures, json, os, re, subprocess, sys, time


def find_culprit(chk, cfg, variant, argv):
    """Re-run single-threaded with tracing to name the job whose execution kills the engine."""
    res, rc, out, err = chk.run_variant(cfg, variant, argv + ["--trace"], timeout=3600)
    jobs = re.findall(r"^JOB (\d+)$", err, flags=re.M)
    last = jobs[-1] if jobs else "?"
    msg = [l for l in err.splitlines() if ("AddressSanitizer" in l or "Undefined Behavior" in l or "unsafe precondition" in l or "panicked" in l)]
    return last, (msg[0][:300] if msg else (err.strip().splitlines() or ["(no message)"])[-1][:300])


def main(chk, prop, spec, tier, seed):
    t0 = time.time()
    ALL8 = spec["cfgs"]
    asan_cfgs = ["D", "C", "A", "NC"]
    if tier == "thorough":
        miri_jobs_cfg = [(c, v) for c in ("D", "A", "C", "NC") for v in ("miri", "miri-release")]
        nshards = 16
    else:
        miri_jobs_cfg = [("D", "miri"), ("D", "miri-release"), ("A", "miri-release"), ("C", "miri-release")]
        nshards = 4
    with chk.Lock():
        sha = chk.stage()
        chk.build(ALL8, "release")
        chk.build(ALL8, "dbg")
        chk.build_variants([(c, "asan") for c in asan_cfgs])
        chk.build_variants(sorted(set(miri_jobs_cfg)))
        hard = chk.ensure_hard()
    known = chk.load_known()
    results = {}
    extra_viol = []
    base = ["c08", "--tier", tier, "--seed", str(seed)]
    full = base + ["--hard", hard]  # release / dbg / asan also run the valid-digit slice

    def dead(cfg, variant, argv, rc, err):
        if not variant.startswith("miri"):
            # case-level localisation for parse_float inputs of the valid-digit slice
            cmd, env = chk.variant_cmd(cfg, variant, argv)
            v = chk.localise_crash(cfg, variant, argv, env)
            if v is not None and v.get("int") is not None and "replay-parse" in v.get("replay_argv", []):
                v["cfg"] = cfg
                path = chk.write_replay(prop, cfg, variant, v, len(extra_viol))
                extra_viol.append((path, v))
                return
        job, msg = find_culprit(chk, cfg, variant, argv)
        v = {"kind": "engine-died", "fmt": "-", "cfg": cfg, "show": f"{' '.join(argv)} (job {job}) in build variant {variant}",
             "got": f"exit status {rc}: {msg}", "want": "every call returns a value or unwinds", "replay_argv": argv, "fam": "BYTES"}
        path = chk.write_replay(prop, cfg, variant, v, len(extra_viol))
        extra_viol.append((path, v))

    # release / dbg / asan: the whole BYTES(3) family
    for variant, cfgs in (("release", ALL8), ("dbg", ALL8), ("asan", asan_cfgs)):
        for cfg in cfgs:
            res, rc, out, err = chk.run_variant(cfg, variant, full)
            if res is None or rc != 0:
                dead(cfg, variant, full, rc, err)
                continue
            res["_exit"] = 0
            results[(cfg, variant)] = res
            chk.log(f"[C08] cfg={cfg} variant={variant} cases={res['cases']} calls={res['calls']} outcomes={res['counters']} wall={res['wall_s']:.1f}s")
    # Miri pool: BYTES small family in shards, vector histories at capacity, purity histories
    jobs = []
    for cfg, variant in miri_jobs_cfg:
        for i in range(nshards):
            jobs.append((cfg, variant, base + ["--small", "--shard", f"{i}/{nshards}"]))
    jobs = [(c, v, a, None) for c, v, a in jobs]
    for i in range(8):
        jobs.append(("D", "miri", ["c13", "--depths", "1,2"], {"MLX_SHARD": f"{i}/8"}))
    for i in range(4):
        jobs.append(("A", "miri-release", ["c13", "--depths", "1,1"], {"MLX_SHARD": f"{i}/4"}))
    gaps = ["--gap", chk.longest_gap()]
    for g in chk.structural_extras():
        gaps += ["--gap", g]
    jobs.append(("D", "miri", ["c16", "--small"] + gaps, None))

    def run_job(j):
        cfg, variant, argv, envx = j
        return j, chk.run_variant(cfg, variant, argv, timeout=7200, env_extra=envx)

    miri_calls = 0
    miri_cases = 0
    with concurrent.futures.ThreadPoolExecutor(max_workers=16) as ex:
        for j, (res, rc, out, err) in ex.map(run_job, jobs):
            cfg, variant, argv, envx = j
            if res is None or rc != 0:
                if "Undefined Behavior" in err or rc != 0:
                    dead(cfg, variant, argv, rc, err)
                continue
            miri_calls += res.get("calls", 0)
            miri_cases += res.get("cases", 0)
            if res.get("nviol", 0):
                # a functional violation seen under Miri belongs to C13/C16; report it here as machinery-independent evidence
                for v in res["violations"][:2]:
                    v["cfg"] = cfg
                    path = chk.write_replay(prop, cfg, variant, v, len(extra_viol))
                    extra_viol.append((path, v))
    chk.log(f"[C08] Miri (Tree Borrows): {len(jobs)} processes, {miri_cases} cases, {miri_calls} calls, no UB reported" if not extra_viol else f"[C08] {len(extra_viol)} engine death(s)")
    cov = {"build_variants": {"release": ALL8, "dbg (debug assertions, overflow checks, core UB-precondition checks)": ALL8, "asan": asan_cfgs,
                              "miri (Tree Borrows)": [f"{c}/{v}" for c, v in miri_jobs_cfg]},
           "miri_processes": len(jobs), "miri_cases": miri_cases, "miri_calls": miri_calls,
           "outcome_classes": "value | unwinding panic are both acceptable; engine death is the violation"}
    if not results:
        results[("D", "release")] = {"cases": 0, "calls": 0, "machinery": [], "violations": []}
    chk.finish(prop, spec, tier, seed, sha, results, known, t0, extra_cov=cov, extra_viol=extra_viol)
