"""Property table of bin/check: which engine sub-command, which configurations, what the run covers."""

# feature sets of the harness crate (they forward to minimal-lexical's features)
CFGS = {
    "D": "std",
    "C": "std,compact",
    "A": "std,alloc",
    "CA": "std,compact,alloc",
    "N": "",
    "NC": "compact",
    "NA": "alloc",
    "NCA": "compact,alloc",
}
FIVE = ["D", "C", "A", "CA", "NC"]
ALL8 = ["D", "C", "A", "CA", "N", "NC", "NA", "NCA"]

ASSUME_EXACT = [
    "the exact oracle (harness/core: schoolbook naturals, interval check by multiplication/shift/comparison) is correct; it is cross-checked on every run against core::str::parse and against by-construction expectations, and a disagreement is a machinery failure",
    "x86_64 host with 64-bit limbs; 32-bit limb targets and the x87 path (fpu.rs) are outside every bound",
    "the staged copy target/stage/repo equals /repo's working tree (content hash recorded as repo_tree_sha)",
]

VALUE_RULE = (
    "bounded-exhaustive enumeration of named input families (DESIGN.md 3.4) executed on the real parse_float in each "
    "configuration; every case is judged by the exact rounding-interval oracle. A case is non-trivial when the real code "
    "leaves the plain fast path for it (disguised fast path, Eisel-Lemire/Bellerophon, big-integer path), as classified "
    "through the verif hook; distinct = distinct (integer, fraction, exponent) triples among those, counted with a hash set."
)

PROPS = {
    "C01": dict(
        sub="c01", cfgs=FIVE, hard=True,
        rule=VALUE_RULE,
        exhaustive_over={
            "quick": "SHORT(3) all sci exponents in [-345,310]; SHORT(4) on three exponent windows; SEAM x q in [-365,330]; EXTREME; BOUNDARY-LIGHT(f64): 2047 binades x ~190 patterns x 8 variants; BOUNDARY-DEEP(f64): named pairs + every 32nd binade, full V(H); THRESHOLDS(f64); HARD(q)",
            "thorough": "SHORT(5) all sci exponents; SEAM; EXTREME incl. 10^6-digit shapes; BOUNDARY-LIGHT(f64) with 1024 extra patterns; BOUNDARY-DEEP(f64) on every binade; THRESHOLDS(f64) with 10^5 compensation; HARD(q)",
        },
        assumptions=ASSUME_EXACT,
    ),
    "C02": dict(
        sub="c02", cfgs=FIVE, hard=True,
        rule=VALUE_RULE,
        exhaustive_over={
            "quick": "as C01 with f32 constants; plus four complete f32 binades (seed-rotated) of midpoints x 3 variants",
            "thorough": "as C01 thorough with f32 constants; plus ALL 2^31-2^23 adjacent f32 pairs (every midpoint: tie, far above, far below) in D and C, 1/16 stride in A, CA, NC",
        },
        assumptions=ASSUME_EXACT,
    ),
}



def _c15_post(results):
    """Monitor validity: the alloc build must be seen allocating on big-integer inputs."""
    out = []
    seen = False
    for (cfg, prof), r in results.items():
        if cfg in ("A", "CA", "NA", "NCA"):
            seen = True
            if r.get("counters", {}).get("calls_that_allocated", 0) == 0:
                out.append(f"allocation monitor is blind: configuration {cfg} (alloc) showed no allocating call")
    if not seen:
        out.append("allocation monitor validity run (alloc configuration) missing")
    return out


PROPS.update({
    "C03": dict(
        sub="c03", cfgs=["D", "C"], rule="every finite non-negative float of the stated sets is rendered three ways (shortest and 9/17 significant digits by core::fmt, full exact expansion by the harness' naturals) and parsed back by the real code; bits must be identical. Non-trivial: the input leaves the plain fast path.",
        exhaustive_over={"quick": "f64: 2047 binades x ~220 patterns; f32: 255 binades x ~150 patterns and four complete binades (2^25 values); x 3 renderings",
                         "thorough": "f32: ALL 2^31-2^23 finite non-negative values x 3 renderings; f64: 2047 binades x ~4200 patterns + complete low-20-bit sweeps in 4 binades"},
        assumptions=ASSUME_EXACT + ["core::fmt renders shortest / fixed-precision digits correctly (cross-checked by the exact oracle on every case judged in full mode)"]),
    "C04": dict(
        sub="c04", cfgs=FIVE, profiles=["release", "dbg"], hard=True,
        rule="every member of the C01/C02/C06/C07 families plus 10^4..10^6-digit shapes x exponent classes is parsed for f32 and f64 under catch_unwind in an optimised build and in a build with debug assertions and overflow checks; outcome must be a non-NaN non-negative value. Non-trivial: more than 19 digits.",
        exhaustive_over={"quick": "union of value families (both formats) + LONG(10^4, 10^5) x 5 shapes x 15 exponents, 5 configurations x {release, debug-assertions+overflow-checks}",
                         "thorough": "same with SHORT(5), every binade DEEP, 10^6-digit shapes"},
        assumptions=["a process abort (not an unwinding panic) kills the engine and is reported as a machinery failure naming the configuration, not as a verdict"]),
    "C05": dict(
        custom="c05", cfgs=ALL8, hard=True,
        rule="the same families in the same order are parsed in all eight separately compiled feature configurations; a 64-bit digest of (input, f32 bits, f64 bits) per job must agree with the default build; a differing job is re-run in dump mode and the first differing inputs are reported. Metamorphic: no expected values.",
        exhaustive_over={"quick": "all value families of C01/C02 (both formats) + RESPELL, 8 configurations", "thorough": "same at thorough bounds"},
        assumptions=["equal digests are taken as equal outputs (64-bit hash per job)"]),
    "C06": dict(
        sub="c06", cfgs=FIVE, hard=True, rule=VALUE_RULE + " Only inputs with at least 20 significant digits are judged here; the deciding digit is placed on both sides of the 19th/20th digit, every 19-digit chunk edge, MAX_DIGITS-3..+3 and far beyond, in integer-only, fraction-only, scientific and split spellings (incl. long integer + short fraction).",
        exhaustive_over={"quick": "BOUNDARY-DEEP full V(H) on named pairs + every 32nd (f64) / 8th (f32) binade; far digits on every 4th binade x patterns; thresholds; SEAM/HARD truncated spellings; EXTREME long shapes",
                         "thorough": "DEEP on every binade, far digit out to 10^6"},
        assumptions=ASSUME_EXACT),
    "C07": dict(
        sub="c07", cfgs=FIVE, rule=VALUE_RULE + " Only inputs whose exact value is below 2^-1021 / 2^-125, at or above 2^1023 / 2^127, zero, or whose exponent argument exceeds 400 in magnitude are judged here.",
        exhaustive_over={"quick": "8 IEEE thresholds per format at every prefix length (truncated and +1) with compensating zeros up to 5000; ~2400 exponent classes x 30 digit shapes incl. i32::MIN/MAX; SHORT(3) and SEAM in the end windows; 13 end binades x patterns; 1/16 of the f32 subnormal and top binade midpoints",
                         "thorough": "compensation up to 10^5, SHORT(4), complete f32 subnormal and top binades"},
        assumptions=ASSUME_EXACT),
    "C09": dict(
        sub="c09", cfgs=FIVE, rule="value-sorted chains are generated (order re-asserted exactly by the harness) and parsed; bits of adjacent elements must be non-decreasing. No expected values. Non-trivial: more than 15 digits or |exponent| > 22.",
        exhaustive_over={"quick": "(1) sorted SEAM significand list with 4 in-between truncated elements per step at every q in [-365,330]; (2) same digits across consecutive exponents; (3) runs of 4 consecutive floats x patterns x every binade with below/at/above-midpoint elements; (4) far-digit chains d=0..9",
                         "thorough": "512 extra patterns"},
        assumptions=["chain order is established by exact decimal comparison in the harness; a generator error is a machinery failure"]),
    "C10": dict(
        sub="c10", cfgs=FIVE, rule="for every base value all spellings (every split position with compensating exponent, leading fraction zeros, 1..40 appended fraction zeros, integer zeros moved into the exponent) are parsed; all must give the bits of the first spelling. Metamorphic: no expected values.",
        exhaustive_over={"quick": "bases: all <=3-digit strings at 60 exponents, SEAM significands at every 5th q (seed-rotated), truncated 39-digit bases, midpoints/exact values of the named pairs (up to 770 digits); splits complete",
                         "thorough": "<=4-digit strings"},
        assumptions=["equality of the spelled values is re-asserted exactly by the harness"]),
    "C15": dict(
        sub="c15", cfgs=["D", "C", "N", "NC", "A"], hard=True, post=_c15_post,
        rule="a counting global allocator with a thread-local counter is read before and after every parse_float call; the delta must be 0 in every configuration without `alloc`. Monitor validity: the `alloc` configuration must be seen allocating. Non-trivial: more than 19 digits (big-integer or truncated path).",
        exhaustive_over={"quick": "SHORT(3), SEAM, EXTREME, BOUNDARY-LIGHT (every 2nd binade), DEEP, thresholds, LONG(10^5), HARD(q): every path class incl. pow >= 135 / long_mul inputs", "thorough": "every binade"},
        assumptions=["the counter sees every allocation made through the global allocator on the calling thread"]),
})

NOT_APPLICABLE = {}

_VALUE_NOTE = ("trusted: the exact oracle in harness/core (naturals with multiply/shift/compare only), rustc, the host FPU for the crate's own fast path; "
               "bounded: f64 midpoints outside the pattern set, significands outside SEAM/HARD per exponent, digit strings beyond 10^6 are not enumerated")

MANIFEST_TEXT = {
    "C03": dict(level="Round trip decided by parsing back three renderings of every float in the stated sets; for f32 the thorough tier covers every finite value (complete), for f64 a pattern family in every binade.", design_ref="DESIGN.md 4/C03", note="renderings from core::fmt and the harness' exact expansion; f64 values outside the pattern family are not enumerated", technique="bounded-exhaustive enumeration of floats x renderings on the real code; complete for f32 in thorough tier"),
    "C04": dict(level="Every family member is executed in optimised and debug-assertion builds of five configurations under catch_unwind; absence of panics is a coverage statement over inputs that maximise big-integer size and hit every exponent-arithmetic site.", design_ref="DESIGN.md 4/C04", note="aborts are machinery failures; digit strings above 10^6 not explored", technique="bounded-exhaustive input enumeration x configurations x build profiles with a panic monitor"),
    "C05": dict(level="Differential exploration: identical, ordered families through eight separately compiled configurations, digests compared. Detects any configuration-dependent result within the families.", design_ref="DESIGN.md 4/C05", note="64-bit digests; families as C01/C02/C10", technique="bounded-exhaustive differential enumeration across 8 feature configurations"),
    "C06": dict(level="The property's three clauses (far digit breaks a tie upward, 9-tail stays below, trailing zeros keep the tie) are enumerated with the deciding digit at every offset relative to the three truncation mechanisms, in every spelling, judged by construction and by the exact oracle.", design_ref="DESIGN.md 4/C06", note=_VALUE_NOTE, technique="bounded-exhaustive enumeration of deciding-digit offsets x spellings on the real code, exact oracle"),
    "C07": dict(level="All IEEE thresholds approached at every digit count, with compensated spellings and the whole i32 exponent range by class; complete for the f32 subnormal/top binades in thorough.", design_ref="DESIGN.md 4/C07", note=_VALUE_NOTE, technique="bounded-exhaustive enumeration around IEEE thresholds and exponent classes, exact oracle"),
    "C09": dict(level="Order preservation checked on every adjacent pair of generated chains that cross each algorithm switch-over; metamorphic oracle.", design_ref="DESIGN.md 4/C09", note="pairs outside the chains are not compared; transitivity gives non-adjacent pairs within a chain", technique="bounded-exhaustive chain enumeration, adjacent-pair order oracle"),
    "C10": dict(level="Every re-spelling of each base value must agree; splits are complete for each base.", design_ref="DESIGN.md 4/C10", note="base set is a family, not all inputs", technique="bounded-exhaustive enumeration of spellings per base, equality oracle"),
    "C15": dict(level="Zero allocations observed on every explored call in the four non-alloc configurations, with a validity run showing the monitor sees allocations in the alloc build.", design_ref="DESIGN.md 4/C15", note="allocation counted on the calling thread only (the crate spawns no threads)", technique="bounded-exhaustive input enumeration with a counting-allocator monitor"),
    "C01": dict(
        level="Every member of the stated finite input families (all <=4/5-digit inputs at every exponent, every seam window at every decimal exponent, ~190 mantissa patterns in each of the 2047 f64 binades with the full near-midpoint variant set, IEEE thresholds at every prefix length, number-theoretic hard cases) is parsed by the real code in five feature configurations and judged by an exact rounding-interval oracle. This is a coverage statement for those families, not a proof for all inputs; it is the right level because wrong rounding can only hide at seams that a systematic enumerator can reach and a unit test cannot.",
        design_ref="DESIGN.md 3.3, 3.4, 4/C01", note=_VALUE_NOTE,
        technique="bounded-exhaustive input enumeration on the real code x 5 configurations, exact rational oracle"),
    "C02": dict(
        level="As C01 for f32; in the thorough tier the rounding-boundary set of f32 is finite and is enumerated completely (all 2^31-2^23 midpoints, each exactly, just above and just below), so for f32 the claim is 'every rounding boundary', including single rounding (the far-above variant is a tie after a prior rounding to f64).",
        design_ref="DESIGN.md 4/C02", note=_VALUE_NOTE,
        technique="bounded-exhaustive enumeration; complete f32 midpoint set in thorough tier; exact oracle + by-construction expectations"),
}
