"""Property table of bin/check: which engine sub-command, which configurations, what the run covers."""

# feature sets of the harness crate (they forward to minimal-lexical's features)
CFGS = {
    "D": "std",
    "C": "std,compact",
    "A": "std,alloc",
    "CA": "std,compact,alloc",
    "N": "",
    "NC": "compact",
    "NA": "alloc",
    "NCA": "compact,alloc",
}
FIVE = ["D", "C", "A", "CA", "NC"]
ALL8 = ["D", "C", "A", "CA", "N", "NC", "NA", "NCA"]

ASSUME_EXACT = [
    "the exact oracle (harness/core: schoolbook naturals, interval check by multiplication/shift/comparison) is correct; it is cross-checked on every run against core::str::parse and against by-construction expectations, and a disagreement is a machinery failure",
    "x86_64 host with 64-bit limbs; 32-bit limb targets and the x87 path (fpu.rs) are outside every bound",
    "the staged copy target/stage/repo equals /repo's working tree (content hash recorded as repo_tree_sha)",
]

VALUE_RULE = (
    "bounded-exhaustive enumeration of named input families (DESIGN.md 3.4) executed on the real parse_float in each "
    "configuration; every case is judged by the exact rounding-interval oracle. A case is non-trivial when the real code "
    "leaves the plain fast path for it (disguised fast path, Eisel-Lemire/Bellerophon, big-integer path), as classified "
    "through the verif hook; distinct = distinct (integer, fraction, exponent) triples among those, counted with a hash set (capped at 16 M hashes: beyond that the reported count is a lower bound)."
)

PROPS = {
    "C01": dict(
        sub="c01", cfgs=FIVE, hard=True,
        rule=VALUE_RULE,
        exhaustive_over={
            "quick": "SHORT(3) all sci exponents in [-345,310]; SHORT(4) on three exponent windows; SEAM x q in [-365,330]; EXTREME; BOUNDARY-LIGHT(f64): 2047 binades x ~190 patterns x 8 variants; BOUNDARY-DEEP(f64): named pairs + every 32nd binade, full V(H); THRESHOLDS(f64); HARD(q); GAPS, LIMB-EDGE, RIPPLE, POW2-POS digit strings; every 4th input of >= 20 digits re-parsed through Filter / TakeWhile iterators",
            "thorough": "SHORT(5) all sci exponents; SEAM; EXTREME incl. 10^6-digit shapes; BOUNDARY-LIGHT(f64) with 1024 extra patterns; BOUNDARY-DEEP(f64) on every binade; THRESHOLDS(f64) with 10^5 compensation; HARD(q)",
        },
        assumptions=ASSUME_EXACT,
    ),
    "C02": dict(
        sub="c02", cfgs=FIVE, hard=True,
        rule=VALUE_RULE,
        exhaustive_over={
            "quick": "as C01 with f32 constants; plus four complete f32 binades (seed-rotated) of midpoints x 3 variants",
            "thorough": "as C01 thorough with f32 constants; plus ALL 2^31-2^23 adjacent f32 pairs (every midpoint: tie, far above, far below) in D and C, 1/16 stride in A, CA, NC",
        },
        assumptions=ASSUME_EXACT,
    ),
}



def _c15_post(results):
    """Monitor validity: the alloc build must be seen allocating on big-integer inputs."""
    out = []
    seen = False
    for (cfg, prof), r in results.items():
        if cfg in ("A", "CA", "NA", "NCA"):
            seen = True
            if r.get("counters", {}).get("calls_that_allocated", 0) == 0:
                out.append(f"allocation monitor is blind: configuration {cfg} (alloc) showed no allocating call")
    if not seen:
        out.append("allocation monitor validity run (alloc configuration) missing")
    return out


PROPS.update({
    "C03": dict(
        sub="c03", cfgs=["D", "C"], hard=True, rule="every finite non-negative float of the stated sets is rendered three ways (shortest and 9/17 significant digits by core::fmt, full exact expansion by the harness' naturals), each written in scientific and in positional notation (what `{:e}` and `{}` print), and parsed back by the real code; bits must be identical. Non-trivial: the input leaves the plain fast path.",
        exhaustive_over={"quick": "f64: 2047 binades x ~220 patterns; f32: 255 binades x ~150 patterns and four complete binades (2^25 values); RT-HARD: the ~60 k floats (and neighbours) that have a 15..17 / 7..9-digit decimal within 1e-8 ulp of a rounding boundary, at every decimal exponent incl. the subnormal range (exact number-theoretic search); x 3 renderings x {scientific, positional}",
                         "thorough": "f32: ALL 2^31-2^23 finite non-negative values x 3 renderings; f64: 2047 binades x ~4200 patterns + complete low-20-bit sweeps in 4 binades"},
        assumptions=ASSUME_EXACT + ["core::fmt renders shortest / fixed-precision digits correctly (cross-checked by the exact oracle on every case judged in full mode)"]),
    "C04": dict(
        sub="c04", cfgs=FIVE, profiles=["release", "dbg"], hard=True,
        rule="every member of the C01/C02/C06/C07 families plus 10^4..10^6-digit shapes x exponent classes is parsed for f32 and f64 under catch_unwind in an optimised build and in a build with debug assertions and overflow checks; outcome must be a non-NaN non-negative value. Non-trivial: more than 19 digits.",
        exhaustive_over={"quick": "union of value families (both formats) + LONG(10^4, 10^5) x 5 shapes x 15 exponents, 5 configurations x {release, debug-assertions+overflow-checks}",
                         "thorough": "same with SHORT(5), every binade DEEP, 10^6-digit shapes"},
        assumptions=["a process abort (not an unwinding panic) kills the engine and is reported as a machinery failure naming the configuration, not as a verdict"]),
    "C05": dict(
        custom="c05", cfgs=ALL8, hard=True,
        rule="the same families in the same order are parsed in all eight separately compiled feature configurations; a 64-bit digest of (input, f32 bits, f64 bits) per job must agree with the default build; a differing job is re-run in dump mode and the first differing inputs are reported. Metamorphic: no expected values.",
        exhaustive_over={"quick": "all value families of C01/C02 (both formats) + RESPELL, 8 configurations", "thorough": "same at thorough bounds"},
        assumptions=["equal digests are taken as equal outputs (64-bit hash per job)"]),
    "C06": dict(
        sub="c06", cfgs=FIVE, hard=True, rule=VALUE_RULE + " Only inputs with at least 20 significant digits are judged here; the deciding digit is placed on both sides of the 19th/20th digit, every 19-digit chunk edge, MAX_DIGITS-3..+3 and far beyond, in integer-only, fraction-only, scientific and split spellings (incl. long integer + short fraction).",
        exhaustive_over={"quick": "BOUNDARY-DEEP full V(H) on named pairs + every 32nd (f64) / 8th (f32) binade; far digits on every 4th binade x patterns; thresholds; SEAM/HARD truncated spellings; EXTREME long shapes",
                         "thorough": "DEEP on every binade, far digit out to 10^6"},
        assumptions=ASSUME_EXACT),
    "C07": dict(
        sub="c07", cfgs=FIVE, profiles=["release", "dbg"], hard=True, rule=VALUE_RULE + " Only inputs whose exact value is below 2^-1021 / 2^-125, at or above 2^1023 / 2^127, zero, or whose exponent argument exceeds 400 in magnitude are judged here.",
        exhaustive_over={"quick": "8 IEEE thresholds per format at every prefix length (truncated and +1) with compensating zeros up to 5000; ~2400 exponent classes x 30 digit shapes incl. i32::MIN/MAX; SHORT(3) and SEAM in the end windows; 13 end binades x patterns; 1/16 of the f32 subnormal and top binade midpoints; HARD(q) and the structural digit strings whose value lies in the end ranges",
                         "thorough": "compensation up to 10^5, SHORT(4), complete f32 subnormal and top binades"},
        assumptions=ASSUME_EXACT),
    "C09": dict(
        sub="c09", cfgs=FIVE, hard=True, rule="value-sorted chains are generated (order re-asserted exactly by the harness) and parsed; bits of adjacent elements must be non-decreasing. No expected values. Non-trivial: more than 15 digits or |exponent| > 22.",
        exhaustive_over={"quick": "(1) sorted SEAM significand list with 4 in-between truncated elements per step at every q in [-365,330]; (2) same digits across consecutive exponents; (3) runs of 4 consecutive floats x patterns x every binade: exact, midpoint - unit, midpoint - far digit, midpoint, midpoint + far digit, midpoint + unit (unit steps are integer steps for integer midpoints); (3b) rich runs around ~27 patterns per binade: for every float its exact / shortest / 9-or-17-digit renderings and for every midpoint its truncations to 15..20 digits and those plus one unit (the short inputs next to a boundary that the moderate stage decides alone), sorted by exact comparison; (4) far-digit chains d=0..9; (5) chains through every structural digit string (GAPS, LIMB-EDGE, RIPPLE, POW2-POS); every element of more than 19 digits of (5), every third one elsewhere, re-parsed with the decimal point after 1/19/38 digits, at its positional place and at the end (equal values must give equal bits)",
                         "thorough": "512 extra patterns"},
        assumptions=["chain order is established by exact decimal comparison in the harness; a generator error is a machinery failure"]),
    "C10": dict(
        sub="c10", cfgs=FIVE, hard=True, rule="for every base value all spellings (every split position with compensating exponent, leading fraction zeros, 1..40 appended fraction zeros, integer zeros moved into the exponent) are parsed; all must give the bits of the first spelling. Metamorphic: no expected values.",
        exhaustive_over={"quick": "bases: all <=3-digit strings at 60 exponents, SEAM significands at every 5th q (seed-rotated), truncated 39-digit bases, midpoints/exact values of the named pairs (up to 770 digits); splits complete; every structural digit string (GAPS, LIMB-EDGE, RIPPLE, POW2-POS) and its upper neighbour as a base",
                         "thorough": "<=4-digit strings"},
        assumptions=["equality of the spelled values is re-asserted exactly by the harness"]),
    "C15": dict(
        sub="c15", cfgs=["D", "C", "N", "NC", "A"], hard=True, post=_c15_post,
        rule="a counting global allocator with a thread-local counter is read before and after every parse_float call - through slice iterators and, for inputs of more than 19 digits, also through Chain+Filter iterators (inexact size hint) and through Flatten iterators (no upper size bound) - and the delta must be 0 in every configuration without `alloc`. Monitor validity: the `alloc` configuration must be seen allocating. Non-trivial: more than 19 digits (big-integer or truncated path).",
        exhaustive_over={"quick": "SHORT(3), SEAM, EXTREME, BOUNDARY-LIGHT (every 2nd binade), DEEP, thresholds, LONG(10^5), HARD(q): every path class incl. pow >= 135 / long_mul inputs", "thorough": "every binade"},
        assumptions=["the counter sees every allocation made through the global allocator on the calling thread"]),
})

PROPS.update({
    "C11": dict(
        sub="c11", cfgs=["D", "C"], hard=True,
        rule="direct calls of the public moderate_path::<F> on (w, q, truncated): a declined result is always accepted; a definite one must be the exact rounding of w*10^q and, if truncated, its rounding interval must contain all of [w, w+1)*10^q (exact oracle). (w=0, truncated) is excluded: it denotes no input. Non-trivial: 19/20-digit w or truncated.",
        exhaustive_over={"quick": "structured set (SEAM significands below 2^64, EVERY significand below 2^14, 1024-wide windows at 10^18, 10^19, 2^63, 2^64) x every q in [-400,350] + i32 extremes x truncated in {false,true}; HARD(q) (exact ties, closest approaches, straddling truncations, low-word and second-multiplication cases) x both flags; f32 and f64; Eisel-Lemire (D) and Bellerophon (C)",
                         "thorough": "every significand below 2^18 and dense 32768-wide windows at 10^18, 10^19, 2^63 and 2^64, at every q"},
        assumptions=ASSUME_EXACT[:1] + ["a panic of the stage on meaningless triples in debug builds is recorded, not judged (a panic is not a guess)"]),
    "C12": dict(
        sub="c12", cfgs=["D", "C", "A", "CA"],
        rule="every big-integer operation is executed on every member of the LIMBS operand family and compared with schoolbook naturals; a result within the design capacity (BIGINT_LIMBS, read from the crate) must be returned by both back-ends for vectors built with the crate's constructors; beyond it the stack back-end must and the heap back-end may report failure, never a wrong value. Capacity is read from the crate. Preconditions as the property states them (non-zero factors, normalised operands for hi64/compare/overflow judgement).",
        exhaustive_over={"quick": "LIMBS (~27k vectors: all <=3-limb vectors over 10 limb values, constant and one-hot vectors at lengths 4-6, 30-32, cap-2..cap) x {unary, small_add/mul x 10 scalars, small_add_from, shl_bits}; ~490-operand normalised sub-family squared x {compare, long_mul, large_mul, large_add_from x 5 offsets}; pow5 for every n in 0..=1200 x 3 operands; Bigint::pow(2|5|10, n); shl for every n in 0..=64*cap+1; shl_limbs up to cap+1; QUOT: 448 operands X = ceil(T/5^k), k in {27,54,81,108,135,162,270}, T with zero / all-ones limbs, through pow, large_mul, long_mul, alone and below one more low limb",
                         "thorough": "sub-family of ~1900 operands squared (49 M operations), pow to 1800"},
        assumptions=["64-bit limbs (host)", "naturals in harness/core are correct (multiplication self-consistent with the decimal tests)"]),
    "C13": dict(
        sub="c13", cfgs=["D", "A"],
        rule="every operation history (constructor followed by d operations) is executed from scratch on a fresh real vector and compared step by step with a reference Vec (with the crate's capacity for the stack vector): contents, length <= capacity, failed push/extend/resize leave contents unchanged, eq/cmp against snapshots of earlier states agree with numeric comparison, is_normalized/hi64 agree. Histories are never merged.",
        exhaustive_over={"quick": "9 constructors x all 35-letter (33 on the heap vector) histories of depth 4 (13.5 M) + 9 x 12-letter core histories of depth 6 (26.9 M); StackVec (D) and HeapVec (A); LADDER: every (k pushes, j pops, resize to r) with k in 0..=cap+1, j <= k, r in 0..=cap+1, two fill values, followed by a fixed 10-operation tail (266 k histories of up to 140 steps): every length is reached, left and jumped to",
                         "thorough": "depth 5 full (352 M) + depth 8 core (3.9 G)"},
        assumptions=["after a failed add_small/mul_small the contents are unspecified and the branch ends"]),
    "C14": dict(
        sub="c14", cfgs=ALL8,
        rule="every table entry and on-demand power reachable through public items of each configuration is recomputed from its definition with naturals (division self-checked by multiplication) and compared; complete finite set.",
        exhaustive_over="651 x 128-bit Eisel-Lemire entries (definition and semantic bound), 28+20 integer powers, 11+23 float powers, 5^135 and its step (non-compact); 10+66 Bellerophon significands with exponents and 10 integers (compact); pow_fast_path(k) for every k the fast path can consume (0..=max(MAX_EXPONENT_FAST_PATH, -MIN_EXPONENT_FAST_PATH), read from the crate) in all 8 configurations (table, std powf, bundled libm); bigint::pow(1,n) n<=200; parse_mantissa chunks of 1..19 digits",
        assumptions=["the definitions are those of etc/lemire_table.py / etc/bellerophon_table.py as restated in the property"]),
    "C17": dict(
        sub="c17", cfgs=["D", "C", "A", "N", "NC"],
        rule="for every bit pattern: to_bits(from_bits) lossless, is_denormal == (exponent field == 0), mantissa()/exponent() equal the canonical IEEE decomposition, slow::b / bh follow from it, extended_to_float packs (biased exponent, fraction) into exactly those fields. Complete for f32.",
        exhaustive_over={"quick": "ALL 2^32 f32 bit patterns; f64: 2048 exponent fields x 2 signs x 156 fraction patterns + complete low-20-bit sweeps of exponent fields 0, 1, 2046, 2047 both signs; every pair of fraction bits and ~400 fractions whose high 20 and low 32 bits are related (equal, complementary, shifted) in every exponent field; complete sweeps of the low 16 and high 16 fraction bits in every 8th exponent field and the three at either end",
                         "thorough": "plus 4096 seed-rotated fraction patterns and complete sweeps of the low 16 and the high 16 fraction bits in every f64 exponent field, both signs"},
        assumptions=["run in five configurations, so a cfg-gated arm in a helper is seen; NA / CA / NCA are assumed to behave as their alloc-free counterparts for these helpers"]),
    "C18": dict(
        sub="c18", cfgs=["D", "C"],
        rule="round::<F> with the nearest-even closure (as Bellerophon uses it), the nearest-even-with-sticky closure (big-integer path) and round_down is executed for every biased exponent of the callers' range on significands built from kept-bits x dropped-bits patterns; the packed result is compared with an exact u128 reference rounding. Mask helpers for every width (complete).",
        exhaustive_over={"quick": "f64 exponents [-63,2100], f32 [-63,320] (every subnormal shift 1..64, the normal shift, every overflow case) x ~50 kept patterns x 9 dropped patterns x 3 closures; lower_n_mask/lower_n_halfway/nth_bit for 0..=64; plus, on 8 kept patterns, one dropped bit at every position alone / on top of half / off half / off all-ones (every partial sticky test is wrong for one of them)",
                         "thorough": "every kept-bit position, every pattern of the low 6 kept bits, dense 64-wide windows of dropped bits around half and at both ends (568 M cases)"},
        assumptions=["packed bits are compared, never (mant, exp) pairs"]),
})

PROPS.update({
    "C19": dict(
        sub="c19", cfgs=["D", "C"],
        rule="all seven shipped copies of the front-end are compiled from the repository sources (build.rs cuts each file to helpers + parse_float and asserts that nothing else was edited) and run on every input; an independent longest-prefix recogniser of the grammar gives the consumed length, the sign and the exact decimal value, which the exact oracle turns into the expected bits (NaN/inf for the special literals of the fuzz/test copies). No panic on any input. Non-trivial: longer than 2 bytes.",
        exhaustive_over={"quick": "TEXT(6): every byte string of length <= 6 over {+ - 0 1 9 . e E x NUL 0xFF / : 0xB2 0xBD} (12.2 M); every 7-byte string over {+ - 0 1 . e E x 0xFF} (4.8 M) and every 8-byte string over {- + 0 1 . e x} (5.8 M); every case variant of nan/inf/infinity x sign x 7 suffixes + near misses; structured product sign x 8 integers x 8 fractions x 26 exponents (incl. beyond i32 and at the limits of both float ranges) x 8 suffixes (39.9 k); 7 copies x f32/f64",
                         "thorough": "TEXT(8) over the 15 bytes (2.7 G strings)"},
        assumptions=ASSUME_EXACT[:1] + ["the grammar is the one in the property statement; the reference recogniser is independent code"]),
})

PROPS.update({
    "C08": dict(
        custom="c08", cfgs=ALL8,
        rule="every member of BYTES (strings over byte classes below '0', digits, just above '9', high bytes; fillers with one foreign byte) is passed as integer and fraction with 8 exponent classes to the real parse_float for f32 and f64 in four build variants: optimised, debug assertions (which enable core's UB-precondition checks and the crate's own debug_asserts), AddressSanitizer, and Miri with Tree Borrows. Outcomes value / unwinding panic are both acceptable; an engine that ends any other way is the violation. Vector histories at capacity and call histories also run under Miri.",
        exhaustive_over={"quick": "BYTES(3)^2 (585^2 pairs) x 8 exponents + fillers to 10^4 bytes, and a valid-digit slice (HARD near-halfway cases at every decimal exponent, GAPS, DEEP, thresholds, EXTREME: 2.5 M inputs that reach the big-integer and table-indexing code) in release and dbg x 8 configurations and ASan x 4; under Miri: BYTES(1)^2 x 3 exponents + short fillers in D (debug and release), A, C; vector histories depth 2; call-history pairs",
                         "thorough": "Miri: BYTES(2)^2 in D, A, C, NC, debug and release"},
        assumptions=["an overflow that stays inside the StackVec object is invisible to ASan and Miri; it is covered by the dbg build's assertions and by C13's step-by-step comparison at capacity",
                     "Miri is run with Tree Borrows (Stacked Borrows flags StackVec::push_unchecked for a within-buffer access; see DESIGN.md observation O1)"]),
})

PROPS.update({
    "C16": dict(
        custom="c16", cfgs=["D", "C", "A", "CA", "N", "NC"],
        rule="a base alphabet of ~250 inputs covering every path class is parsed (1) through every iterator shape (Chain split at every position, Filter with separators in every 1-3-periodic pattern, Skip/Take, SkipWhile/TakeWhile, Rev, wrapped VecDeque, LinkedList, Flatten, a deep-cloning iterator with size_hint (0,None), a non-fused iterator that yields more bytes after its first None) and at every alignment offset on heap and stack; (2) after every ordered pair / triple of earlier calls with the stack painted 0x00/0xFF/0xA5; (3) under loom in every call-level interleaving of 2x2, 3x1 and 2x3 callers; (4) from 16 free-running threads (the alphabet in rotated orders, and a fast-path hammer of 400 k iterations per thread over 360 short inputs of both formats - a stress pass, i.e. sampling of schedules, that checks the independence premise) and under Miri's race detector. Every result must equal the slice-iterator result of the same input parsed in a process of its own (one call per process, so no state that survives between calls can leak into the reference).",
        exhaustive_over={"quick": "shapes x ~250 inputs x 2 formats; all ordered pairs over the alphabet + 21^3 triples x 3 paints; loom: all interleavings (6225 executions for 3x1, all 20 publication orders for 2x3); Miri with 2 schedule seeds",
                         "thorough": "45^3 triples, loom also in compact and alloc builds, 8 Miri seeds, 40 rounds of free-running threads"},
        assumptions=["intra-call interleavings are covered by independence (calls share no writable memory), a premise checked by the race detector and free-running threads rather than enumerated",
                     "the x87 control-word path (fpu.rs) is compiled out on x86_64"]),
})

NOT_APPLICABLE = {}

_VALUE_NOTE = ("trusted: the exact oracle in harness/core (naturals with multiply/shift/compare only), rustc, the host FPU for the crate's own fast path; "
               "bounded: f64 midpoints outside the pattern set, significands outside SEAM/HARD per exponent, digit strings beyond 10^6 are not enumerated")

MANIFEST_TEXT = {
    "C16": dict(level="Purity explored along each quantifier: iterator shapes and addresses (complete split positions), call histories (all ordered pairs/triples of an alphabet covering every path class, with poisoned stack), schedules (loom, exhaustive at call granularity), and the independence premise (race detector, free-running threads).", design_ref="DESIGN.md 4/C16", note="loom controls only the scheduling points the harness inserts between calls; histories are depth 2-3", technique="exhaustive call-level schedule exploration (loom) + bounded-exhaustive history and iterator-shape enumeration on the real code", engine="mlx + loomc16 (loom 0.7) + Miri"),
    "C08": dict(level="The byte-class family is enumerated completely up to length 3 per part, together with a 2.5 M-input valid-digit slice that reaches the big-integer and table-indexing code at every decimal exponent, and executed under four UB monitors; the verdict is that no execution ends other than by a value or a clean unwinding panic.", design_ref="DESIGN.md 4/C08", note="monitors: debug assertions + core UB checks, ASan, Miri (Tree Borrows); byte strings beyond the family are not explored", technique="bounded-exhaustive enumeration of byte strings on the real code under UB monitors (debug-assertion build, ASan, Miri)", engine="mlx (+ nightly ASan and Miri builds of the same engine)"),
    "C19": dict(level="Every short byte string over an 11-byte alphabet that contains each syntactic role, plus special-literal and structured products, through all seven copies compiled from the repository; reference grammar + exact oracle.", design_ref="DESIGN.md 4/C19", note="strings longer than 6 (7) bytes only through the structured product", technique="bounded-exhaustive string enumeration on the real front-end copies against a reference recogniser + exact oracle"),
    "C11": dict(level="The stage is driven directly through its public entry point on a structured and a number-theoretic (w,q,flag) family in both implementations; every definite answer is verified exactly, including the interval condition for truncated significands.", design_ref="DESIGN.md 4/C11", note="w outside the structured/HARD sets is not enumerated (2^64 per exponent)", technique="bounded-exhaustive enumeration of stage inputs on the real code, exact interval oracle"),
    "C12": dict(level="Each operation is compared with naturals on an operand family built to put carries, zero limbs and the capacity edge at every position; pow and shl are complete over their exponent ranges.", design_ref="DESIGN.md 4/C12", note="operand values outside the LIMBS family are not enumerated", technique="bounded-exhaustive operand enumeration against a natural-number reference model"),
    "C13": dict(level="All operation histories up to the stated depth over a 30-letter (resp. 12-letter) alphabet are executed on the real vectors against a reference sequence, without state merging so stale buffer contents cannot hide.", design_ref="DESIGN.md 4/C13", note="depth bound; limb values {0,1,MAX} and fixed extension contents", technique="exhaustive operation-history enumeration (depth-bounded) against a reference model"),
    "C14": dict(level="Complete: the set of constants is finite and every one is recomputed from its definition in every configuration that has it.", design_ref="DESIGN.md 4/C14", note="definitions restated from the generators", technique="complete enumeration of a finite constant set, recomputation with naturals"),
    "C17": dict(level="Complete for f32 (all 2^32 patterns); bounded family for f64.", design_ref="DESIGN.md 4/C17", note="f64 patterns outside the family not enumerated", technique="complete enumeration (f32) / bounded family (f64) of bit patterns against the IEEE decomposition"),
    "C18": dict(level="Every shift the callers can request, with kept/dropped bit patterns that put the rounding decision on every side of half, carry and overflow; exact reference.", design_ref="DESIGN.md 4/C18", note="significand patterns are a family; mask helpers complete", technique="bounded-exhaustive enumeration of (significand, exponent, closure) against exact u128 rounding"),
    "C03": dict(level="Round trip decided by parsing back three renderings of every float in the stated sets; for f32 the thorough tier covers every finite value (complete), for f64 a pattern family in every binade.", design_ref="DESIGN.md 4/C03", note="renderings from core::fmt and the harness' exact expansion; f64 values outside the pattern family are not enumerated", technique="bounded-exhaustive enumeration of floats x renderings on the real code; complete for f32 in thorough tier"),
    "C04": dict(level="Every family member is executed in optimised and debug-assertion builds of five configurations under catch_unwind; absence of panics is a coverage statement over inputs that maximise big-integer size and hit every exponent-arithmetic site.", design_ref="DESIGN.md 4/C04", note="aborts are machinery failures; digit strings above 10^6 not explored", technique="bounded-exhaustive input enumeration x configurations x build profiles with a panic monitor"),
    "C05": dict(level="Differential exploration: identical, ordered families through eight separately compiled configurations, digests compared. Detects any configuration-dependent result within the families.", design_ref="DESIGN.md 4/C05", note="64-bit digests; families as C01/C02/C10", technique="bounded-exhaustive differential enumeration across 8 feature configurations"),
    "C06": dict(level="The property's three clauses (far digit breaks a tie upward, 9-tail stays below, trailing zeros keep the tie) are enumerated with the deciding digit at every offset relative to the three truncation mechanisms, in every spelling, judged by construction and by the exact oracle.", design_ref="DESIGN.md 4/C06", note=_VALUE_NOTE, technique="bounded-exhaustive enumeration of deciding-digit offsets x spellings on the real code, exact oracle"),
    "C07": dict(level="All IEEE thresholds approached at every digit count, with compensated spellings and the whole i32 exponent range by class; complete for the f32 subnormal/top binades in thorough.", design_ref="DESIGN.md 4/C07", note=_VALUE_NOTE, technique="bounded-exhaustive enumeration around IEEE thresholds and exponent classes, exact oracle"),
    "C09": dict(level="Order preservation checked on every adjacent pair of generated chains that cross each algorithm switch-over; metamorphic oracle.", design_ref="DESIGN.md 4/C09", note="pairs outside the chains are not compared; transitivity gives non-adjacent pairs within a chain", technique="bounded-exhaustive chain enumeration, adjacent-pair order oracle"),
    "C10": dict(level="Every re-spelling of each base value must agree; splits are complete for each base.", design_ref="DESIGN.md 4/C10", note="base set is a family, not all inputs", technique="bounded-exhaustive enumeration of spellings per base, equality oracle"),
    "C15": dict(level="Zero allocations observed on every explored call in the four non-alloc configurations, with a validity run showing the monitor sees allocations in the alloc build.", design_ref="DESIGN.md 4/C15", note="allocation counted on the calling thread only (the crate spawns no threads)", technique="bounded-exhaustive input enumeration with a counting-allocator monitor"),
    "C01": dict(
        level="Every member of the stated finite input families (all <=4/5-digit inputs at every exponent, every seam window at every decimal exponent, ~190 mantissa patterns in each of the 2047 f64 binades with the full near-midpoint variant set, IEEE thresholds at every prefix length, number-theoretic hard cases) is parsed by the real code in five feature configurations and judged by an exact rounding-interval oracle. This is a coverage statement for those families, not a proof for all inputs; it is the right level because wrong rounding can only hide at seams that a systematic enumerator can reach and a unit test cannot.",
        design_ref="DESIGN.md 3.3, 3.4, 4/C01", note=_VALUE_NOTE,
        technique="bounded-exhaustive input enumeration on the real code x 5 configurations, exact rational oracle"),
    "C02": dict(
        level="As C01 for f32; in the thorough tier the rounding-boundary set of f32 is finite and is enumerated completely (all 2^31-2^23 midpoints, each exactly, just above and just below), so for f32 the claim is 'every rounding boundary', including single rounding (the far-above variant is a tie after a prior rounding to f64).",
        design_ref="DESIGN.md 4/C02", note=_VALUE_NOTE,
        technique="bounded-exhaustive enumeration; complete f32 midpoint set in thorough tier; exact oracle + by-construction expectations"),
}
