"""Property table of bin/check: which engine sub-command, which configurations, what the run covers."""

# feature sets of the harness crate (they forward to minimal-lexical's features)
CFGS = {
    "D": "std",
    "C": "std,compact",
    "A": "std,alloc",
    "CA": "std,compact,alloc",
    "N": "",
    "NC": "compact",
    "NA": "alloc",
    "NCA": "compact,alloc",
}
FIVE = ["D", "C", "A", "CA", "NC"]
ALL8 = ["D", "C", "A", "CA", "N", "NC", "NA", "NCA"]

ASSUME_EXACT = [
    "the exact oracle (harness/core: schoolbook naturals, interval check by multiplication/shift/comparison) is correct; it is cross-checked on every run against core::str::parse and against by-construction expectations, and a disagreement is a machinery failure",
    "x86_64 host with 64-bit limbs; 32-bit limb targets and the x87 path (fpu.rs) are outside every bound",
    "the staged copy target/stage/repo equals /repo's working tree (content hash recorded as repo_tree_sha)",
]

VALUE_RULE = (
    "bounded-exhaustive enumeration of named input families (DESIGN.md 3.4) executed on the real parse_float in each "
    "configuration; every case is judged by the exact rounding-interval oracle. A case is non-trivial when the real code "
    "leaves the plain fast path for it (disguised fast path, Eisel-Lemire/Bellerophon, big-integer path), as classified "
    "through the verif hook; distinct = distinct (integer, fraction, exponent) triples among those, counted with a hash set."
)

PROPS = {
    "C01": dict(
        sub="c01", cfgs=FIVE, hard=True,
        rule=VALUE_RULE,
        exhaustive_over={
            "quick": "SHORT(3) all sci exponents in [-345,310]; SHORT(4) on three exponent windows; SEAM x q in [-365,330]; EXTREME; BOUNDARY-LIGHT(f64): 2047 binades x ~190 patterns x 8 variants; BOUNDARY-DEEP(f64): named pairs + every 32nd binade, full V(H); THRESHOLDS(f64); HARD(q)",
            "thorough": "SHORT(5) all sci exponents; SEAM; EXTREME incl. 10^6-digit shapes; BOUNDARY-LIGHT(f64) with 1024 extra patterns; BOUNDARY-DEEP(f64) on every binade; THRESHOLDS(f64) with 10^5 compensation; HARD(q)",
        },
        assumptions=ASSUME_EXACT,
    ),
    "C02": dict(
        sub="c02", cfgs=FIVE, hard=True,
        rule=VALUE_RULE,
        exhaustive_over={
            "quick": "as C01 with f32 constants; plus four complete f32 binades (seed-rotated) of midpoints x 3 variants",
            "thorough": "as C01 thorough with f32 constants; plus ALL 2^31-2^23 adjacent f32 pairs (every midpoint: tie, far above, far below) in D and C, 1/16 stride in A, CA, NC",
        },
        assumptions=ASSUME_EXACT,
    ),
}

NOT_APPLICABLE = {}

_VALUE_NOTE = ("trusted: the exact oracle in harness/core (naturals with multiply/shift/compare only), rustc, the host FPU for the crate's own fast path; "
               "bounded: f64 midpoints outside the pattern set, significands outside SEAM/HARD per exponent, digit strings beyond 10^6 are not enumerated")

MANIFEST_TEXT = {
    "C01": dict(
        level="Every member of the stated finite input families (all <=4/5-digit inputs at every exponent, every seam window at every decimal exponent, ~190 mantissa patterns in each of the 2047 f64 binades with the full near-midpoint variant set, IEEE thresholds at every prefix length, number-theoretic hard cases) is parsed by the real code in five feature configurations and judged by an exact rounding-interval oracle. This is a coverage statement for those families, not a proof for all inputs; it is the right level because wrong rounding can only hide at seams that a systematic enumerator can reach and a unit test cannot.",
        design_ref="DESIGN.md 3.3, 3.4, 4/C01", note=_VALUE_NOTE,
        technique="bounded-exhaustive input enumeration on the real code x 5 configurations, exact rational oracle"),
    "C02": dict(
        level="As C01 for f32; in the thorough tier the rounding-boundary set of f32 is finite and is enumerated completely (all 2^31-2^23 midpoints, each exactly, just above and just below), so for f32 the claim is 'every rounding boundary', including single rounding (the far-above variant is a tie after a prior rounding to f64).",
        design_ref="DESIGN.md 4/C02", note=_VALUE_NOTE,
        technique="bounded-exhaustive enumeration; complete f32 midpoint set in thorough tier; exact oracle + by-construction expectations"),
}
