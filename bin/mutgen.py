#!/usr/bin/env python3
"""bin/mutgen.py <repo> <outdir> [file ...]

Mechanical single-token mutant generator for the self-validation sweep (DESIGN.md 6.5). It is NOT part of any
check: it only produces patch files that `bin/mutsweep` applies to scratch copies of the repository.

Operators (one site, one replacement per mutant; comments, doc comments, attributes, `debug_assert`s and test
modules are skipped):
  rel   : <  <-> <=,  >  <-> >=,  == <-> !=
  arith : ' + ' <-> ' - ',  ' += ' <-> ' -= ', ' << ' <-> ' >> '
  lit   : decimal integer literal n -> n+1 and (n>0) n-1   (hex literals: +1)
  logic : && <-> ||
  bool  : true <-> false
  sat   : saturating_add/sub -> wrapping_add/sub ; checked_ -> wrapping_ is not tried (type changes)
Each mutant is written as <outdir>/<file>__L<line>__<op><k>.diff (unified diff against the file).
"""
import sys, os, re, difflib

REL = [(r'(?<![<>=!\-])<(?![<=])', '<='), (r'(?<![<>=!])<=(?!=)', '<'), (r'(?<![<>=!\-])>(?![>=])', '>='),
       (r'(?<![<>=!\-])>=(?!=)', '>'), (r'==', '!='), (r'!=', '==')]
ARITH = [(r' \+ ', ' - '), (r' - ', ' + '), (r' \+= ', ' -= '), (r' -= ', ' += '), (r' << ', ' >> '), (r' >> ', ' << ')]
LOGIC = [(r'&&', '||'), (r'\|\|', '&&')]
BOOL = [(r'\btrue\b', 'false'), (r'\bfalse\b', 'true')]
SAT = [(r'saturating_add', 'wrapping_add'), (r'saturating_sub', 'wrapping_sub')]


def code_part(line):
    i = line.find('//')
    return line if i < 0 else line[:i]


def sites(line):
    code = code_part(line)
    out = []
    # generics / lifetimes / arrows / type positions make '<' and '>' ambiguous: only mutate them when
    # the line has no `::<`, `->`, `fn `, `impl`, `Option<`, `<F`, `&'`, `Iter<` ...
    generic = re.search(r'::<|->|\bfn\b|\bimpl\b|\bwhere\b|Option<|<F\b|<T\b|Iter<|Vec<|<Iter|<\'|: [A-Z]\w*<|as_ref|PhantomData|=>', code)
    for pat, rep in REL:
        if generic and ('<' in rep or '>' in rep) and rep not in ('!=', '=='):
            continue
        for m in re.finditer(pat, code):
            out.append(('rel', m.start(), m.end(), rep))
    for pat, rep in ARITH + LOGIC + BOOL + SAT:
        for m in re.finditer(pat, code):
            if generic and rep.strip() in ('<<', '>>'):
                continue
            out.append(('op', m.start(), m.end(), rep))
    for m in re.finditer(r'(?<![\w.#\'])(\d[\d_]*)(?![\w.]|\.\d)(?:_?(?:u8|u16|u32|u64|i32|i64|usize|u128))?', code):
        txt = m.group(1)
        if code[m.start() - 1:m.start()] == '[' and code[m.end():m.end() + 1] == ']' and False:
            continue
        try:
            n = int(txt.replace('_', ''))
        except ValueError:
            continue
        out.append(('lit', m.start(1), m.end(1), str(n + 1)))
        if n > 0:
            out.append(('lit', m.start(1), m.end(1), str(n - 1)))
    for m in re.finditer(r'0x([0-9A-Fa-f_]+)', code):
        try:
            n = int(m.group(1).replace('_', ''), 16)
        except ValueError:
            continue
        out.append(('hex', m.start(), m.end(), hex(n + 1)))
    return out


def skip_line(s):
    t = s.strip()
    return (not t or t.startswith('//') or t.startswith('#[') or t.startswith('#![') or 'debug_assert' in t
            or t.startswith('use ') or t.startswith('pub use ') or t.startswith('mod ') or t.startswith('pub mod ')
            or t.startswith('extern '))


def main():
    repo, outdir = sys.argv[1], sys.argv[2]
    files = sys.argv[3:]
    os.makedirs(outdir, exist_ok=True)
    total = 0
    for rel in files:
        path = os.path.join(repo, rel)
        lines = open(path).read().split('\n')
        in_tests = False
        in_macro_doc = False
        for ln, line in enumerate(lines):
            if re.match(r'\s*#\[cfg\(test\)\]', line):
                in_tests = True
            if in_tests or skip_line(line):
                continue
            for k, (kind, a, b, rep) in enumerate(sites(line)):
                new = line[:a] + rep + line[b:]
                if new == line:
                    continue
                mutated = lines[:ln] + [new] + lines[ln + 1:]
                diff = ''.join(difflib.unified_diff([l + '\n' for l in lines], [l + '\n' for l in mutated],
                                                    'a/' + rel, 'b/' + rel, n=3))
                # files end with '\n' so the split leaves a trailing '' element: drop the artefact line
                name = '%s__L%d__%s%d.diff' % (rel.replace('/', '_'), ln + 1, kind, k)
                open(os.path.join(outdir, name), 'w').write(diff)
                total += 1
    print(total, 'mutants written to', outdir)


if __name__ == '__main__':
    main()
