#!/usr/bin/env python3
"""HARD(q): number-theoretic hard cases (w, q) for the moderate stage and for end-to-end parsing.

Exact integer arithmetic only (python int / Fraction); deterministic; no sampling.
Every case is re-judged by the harness' exact oracle, so an error here can only cost coverage.

Output lines:  <fmt> <q> <w> <kind>
  tie       w*10^q is exactly a midpoint of two adjacent floats          (Appendix A, DESIGN.md)
  near      closest non-tie approaches to a midpoint with w < 2^64       (modular inverse / lattice reduction)
  straddle  w = floor(H / 10^q) and w + 1 for midpoints H with a 19/20-digit quotient
            (the truncated significand S0 produces for inputs next to H; the interval [w, w+1)*10^q contains H)
  lomax     the low word of the 128-bit Eisel-Lemire product is 2^64 - 1
  mul2      the Eisel-Lemire second multiplication is needed (first_hi low bits all ones), with and without carry
"""
import argparse, sys
from fractions import Fraction

M64 = 1 << 64


def table_entry(q):
    """128-bit truncated power of five as defined by etc/lemire_table.py (recomputed, not read)."""
    if q < 0:
        p = 5 ** -q
        z = 0
        while (1 << z) < p:
            z += 1
        if q >= -27:
            b = z + 127
            c = 2 ** b // p + 1
        else:
            b = 2 * z + 2 * 64
            c = 2 ** b // p + 1
            while c >= (1 << 128):
                c //= 2
        return c
    p = 5 ** q
    while p < (1 << 127):
        p *= 2
    while p >= (1 << 128):
        p //= 2
    return p


def gauss_reduce(b1, b2):
    def n2(v):
        return v[0] * v[0] + v[1] * v[1]
    if n2(b1) > n2(b2):
        b1, b2 = b2, b1
    while True:
        num = b1[0] * b2[0] + b1[1] * b2[1]
        den = n2(b1)
        mu = (2 * num + den) // (2 * den)
        b2 = (b2[0] - mu * b1[0], b2[1] - mu * b1[1])
        if n2(b2) >= n2(b1):
            return b1, b2
        b1, b2 = b2, b1


def cvp_candidates(A, M, target, wlo, whi, scale):
    b1 = (scale, A % M)
    b2 = (0, M)
    r1, r2 = gauss_reduce(b1, b2)
    wc = (wlo + whi) // 2
    t = (wc * scale, (wc * A) % M)
    dy = target - t[1]
    det = r1[0] * r2[1] - r1[1] * r2[0]
    if det == 0:
        return []
    a0 = Fraction(-dy * r2[0], det)
    b0 = Fraction(r1[0] * dy, det)
    out = []
    for da in range(-3, 4):
        for db in range(-3, 4):
            a = round(a0) + da
            b = round(b0) + db
            vx = a * r1[0] + b * r2[0]
            if vx % scale:
                continue
            w = wc + vx // scale
            if not (wlo <= w < whi):
                continue
            y = (w * A) % M
            out.append((abs(y - target), w))
    out.sort()
    return out


def midpoint_cases(q, p, wbits, want=6):
    res = []
    wlo, whi = 1 << (wbits - 1), 1 << wbits
    if q >= 0:
        P = 5 ** q
        for L in (wbits + P.bit_length() - 1, wbits + P.bit_length()):
            k = L - p
            if k <= 0:
                continue
            M = 1 << k
            target = 1 << (k - 1)
            lo = max(wlo, -((-(1 << (L - 1))) // P))
            hi = min(whi, -((-(1 << L)) // P))
            if lo >= hi:
                continue
            if k <= wbits:
                inv = pow(P, -1, M)
                for d in (0, 1, -1, 2, -2, 3, -3):
                    r = (inv * (target + d)) % M
                    w = lo + ((r - lo) % M)
                    if w < hi:
                        res.append((w, 'tie' if d == 0 else 'near'))
            else:
                scale = 1 << max(0, k - wbits)
                for dist, w in cvp_candidates(P, M, target, lo, hi, scale)[:want]:
                    res.append((w, 'tie' if dist == 0 else 'near'))
    else:
        P = 5 ** (-q)
        for s_adj in (0, 1):
            s = (p + 1) + P.bit_length() - wbits - 1 + s_adj
            M = 2 * P
            if s >= 0:
                A = pow(2, s, M)
                scale = max(1, M >> wbits)
                for dist, w in cvp_candidates(A, M, P, wlo, whi, scale)[:want]:
                    res.append((w, 'tie' if dist == 0 else 'near'))
            else:
                step = P << (-s)
                m0 = (wlo // step) | 1
                for j in range(0, 6, 2):
                    w = (m0 + j) * step
                    if wlo <= w < whi:
                        res.append((w, 'tie'))
    return res


def decimal_near_cases(q, p, ndigits, want=4):
    """closest approaches / ties for w with exactly `ndigits` decimal digits (the short inputs a shortest or
    fixed-precision rendering produces), normal range"""
    res = []
    wlo, whi = 10 ** (ndigits - 1), 10 ** ndigits
    if q >= 0:
        P = 5 ** q
        for L in range((wlo * P).bit_length(), (whi * P).bit_length() + 1):
            k = L - p
            if k <= 0:
                continue
            M = 1 << k
            target = 1 << (k - 1)
            lo = max(wlo, -((-(1 << (L - 1))) // P))
            hi = min(whi, -((-(1 << L)) // P))
            if lo >= hi:
                continue
            scale = max(1, M // (hi - lo))
            for dist, w in cvp_candidates(P, M, target, lo, hi, scale)[:want]:
                res.append((w, 'tie' if dist == 0 else 'near'))
    else:
        P = 5 ** (-q)
        M = 2 * P
        for s in range((p + 1) + P.bit_length() - whi.bit_length() - 1, (p + 1) + P.bit_length() - wlo.bit_length() + 2):
            if s < 0:
                continue
            # only w for which floor(w * 2^s / P) has p + 1 bits belong to this s
            lo = max(wlo, -((-(P << p)) >> s))
            hi = min(whi, -((-(P << (p + 1))) >> s))
            if lo >= hi:
                continue
            A = pow(2, s, M)
            scale = max(1, M // (hi - lo))
            for dist, w in cvp_candidates(A, M, P, lo, hi, scale)[:want]:
                res.append((w, 'tie' if dist == 0 else 'near'))
    return res


def subnormal_near_cases(q, emin_ulp, min_normal_exp, wlo, whi, want=4, scan=40000):
    """closest approaches to the midpoints (2k+1) * 2^(emin_ulp-1) of the subnormal range (fixed spacing):
    w ~ (2k+1) * 2^(emin_ulp-1) / 10^q, scanned over a fixed progression of k (exact integer arithmetic)."""
    if q >= 0:
        return []
    num = 10 ** (-q)                 # w = (2k+1) * num / den
    den = 1 << (-(emin_ulp - 1))
    # k range such that w in [wlo, whi) and the value stays below the smallest normal
    kmax_sub = (1 << (min_normal_exp - emin_ulp)) - 1          # 2k+1 < 2^(p) : subnormal midpoints only
    klo = max(0, (wlo * den // num - 1) // 2)
    khi = min(kmax_sub, (whi * den // num - 1) // 2)
    if klo >= khi:
        return []
    span = khi - klo
    step = max(1, span // scan)
    best = []
    k = klo
    while k < khi:
        t = (2 * k + 1) * num
        w = (t + den // 2) // den
        if wlo <= w < whi:
            err = abs(w * den - t)
            best.append((err, w))
        k += step
    best.sort()
    out = []
    for err, w in best[:want]:
        out.append((w, 'tie' if err == 0 else 'near'))
    # and the nearest w on the other side of each of those midpoints
    for err, w in best[:want]:
        for dw in (-1, 1):
            if wlo <= w + dw < whi:
                out.append((w + dw, 'near'))
    return out


def patterns(mb):
    mx = (1 << mb) - 1
    p = set()
    for i in range(4):
        p.add(i)
        p.add(mx - i)
    for k in range(0, mb, 3):
        p.add(1 << k)
        p.add((1 << k) - 1)
        p.add(mx ^ ((1 << k) - 1))
    p.add(0x5555555555555555 & mx)
    p.add(0xAAAAAAAAAAAAAAAA & mx)
    return sorted(p)


def straddle_cases(q, p, emin_ulp, emax_e):
    """w = floor(H/10^q), w+1 for midpoints H = (2m+1) * 2^(e-1) whose quotient has 19 or 20 digits (< 2^64)."""
    out = []
    mb = p - 1
    pats = patterns(mb)
    lo, hi = 10 ** 18, M64
    # binades whose values overlap [lo, hi) * 10^q
    vlo = Fraction(lo) * Fraction(10) ** q
    vhi = Fraction(hi) * Fraction(10) ** q
    # exponent e of the ulp: value = m * 2^e with m in [2^mb, 2^p)
    def ilog2(fr):
        n, d = fr.numerator, fr.denominator
        e = n.bit_length() - d.bit_length()
        if Fraction(2) ** e > fr:
            e -= 1
        return e
    e_lo = ilog2(vlo) - mb
    e_hi = ilog2(vhi) - mb
    for e in range(e_lo, e_hi + 1):
        if e < emin_ulp or e > emax_e:
            continue
        for fr in pats:
            m = (1 << mb) | fr
            H = Fraction(2 * m + 1) * Fraction(2) ** (e - 1)
            t = H / Fraction(10) ** q
            w = t.numerator // t.denominator
            if lo <= w and w + 1 < hi:
                out.append(w)
                out.append(w + 1)
    return out


def lemire_cases(q, precision):
    """lomax and mul2 cases from the 128-bit table entry, scanning a fixed arithmetic progression of w."""
    T = table_entry(q)
    thi, tlo = T >> 64, T & (M64 - 1)
    out = []
    if thi % 2 == 1:
        w = (-pow(thi, -1, M64)) % M64
        if w >> 63:
            out.append((w, 'lomax'))
            # the same significand with trailing decimal structure removed (19-digit candidates)
    mask = (M64 - 1) >> precision
    # w = 2^63 + i * golden (mod 2^63): a fixed progression, 6144 terms
    g = 0x9E3779B97F4A7C15
    found_carry = found_plain = 0
    for i in range(6144):
        w = (1 << 63) | ((i * g) & ((1 << 63) - 1))
        first = w * thi
        fhi, flo = first >> 64, first & (M64 - 1)
        if fhi & mask == mask:
            second_hi = (w * tlo) >> 64
            carry = (flo + second_hi) >= M64
            if carry and found_carry < 6:
                found_carry += 1
                out.append((w, 'mul2'))
            elif not carry and found_plain < 3:
                found_plain += 1
                out.append((w, 'mul2'))
    # when the mask is wide (f32: 38 bits) a scan never hits it: solve  w * thi mod 2^(64+bits)  in
    # [2^(64+bits) - 2^64, 2^(64+bits))  for 64-bit normalised w with the two-dimensional lattice
    bits = 64 - precision
    if bits > 20:
        Mod = 1 << (64 + bits)
        target = Mod - (1 << 63)
        for dist, w in cvp_candidates(thi, Mod, target, 1 << 63, 1 << 64, 1)[:12]:
            first = w * thi
            fhi, flo = first >> 64, first & (M64 - 1)
            if fhi & mask == mask:
                out.append((w, 'mul2'))
    return out


def round_bits(v, p, emin_ulp, emax_e):
    """correctly rounded (m, e) of the positive Fraction v (no overflow handling needed here)"""
    n, d = v.numerator, v.denominator
    e = n.bit_length() - d.bit_length()
    if Fraction(2) ** e > v:
        e -= 1
    ulp_e = max(e - (p - 1), emin_ulp)
    x = v / Fraction(2) ** ulp_e
    m = x.numerator // x.denominator
    r = x - m
    if r > Fraction(1, 2) or (r == Fraction(1, 2) and m % 2 == 1):
        m += 1
    return (m, ulp_e)


def gap_cases():
    """GAPS: integers D = A*2^k + B (limbs [B, 0, .., 0, A]: a run of zero limbs inside the big integer) with a
    decimal exponent >= 135 (so the big-integer path multiplies by the multi-limb 5^135 with long multiplication),
    chosen so that the 19-digit truncation w and w+1 round to different doubles: the moderate stage must decline."""
    out = []
    p, emin_ulp = 53, -1074
    for e in (135, 136, 160, 200, 270):
        for k in (64, 128, 192, 256, 320, 384, 448, 512, 576, 640):
            # D has about (k + 63) * log10(2) digits; D * 10^e must stay finite
            if int((k + 64) * 0.30103) + 1 + e > 309:
                continue
            found = 0
            P = 5 ** e
            # midpoints of the binade of 2^(62+k) * 10^e: A ~ (2m+1) * 2^t / 5^e
            top = (1 << (62 + k)) * P
            L = top.bit_length()
            t = L - 54  # (2m+1) has 54 bits
            for j in range(4000):
                m2 = (1 << 53) + 1 + 2 * (j * 0x9E3779B1 % (1 << 52))
                # A * 2^k * 5^e * 2^e ~ m2 * 2^(t+e)  =>  A ~ m2 * 2^(t-k) / 5^e
                num = m2 << max(t - k, 0)
                den = P << max(k - t, 0)
                A = (2 * num + den) // (2 * den)
                if not ((1 << 60) <= A < (1 << 64)):
                    continue
                for B in (1, 0x8000000000000001):
                    D = (A << k) + B
                    ds = str(D)
                    if len(ds) < 20:
                        continue
                    w = int(ds[:19])
                    sc = e + len(ds) - 19
                    lo = round_bits(Fraction(w) * Fraction(10) ** sc, p, emin_ulp, 971)
                    hi = round_bits(Fraction(w + 1) * Fraction(10) ** sc, p, emin_ulp, 971)
                    if lo != hi:
                        out.append((e, ds))
                        found += 1
                if found >= 4:
                    break
    return out


def limb_edge_cases():
    """LIMB-EDGE: inputs for which the two big integers compared by the big-integer path for negative exponents -
    the digits D (times a power of two) and the halfway significand (2m+1) * 5^n (times a power of two) - lie on
    different sides of a power of 2^64 and therefore have different limb counts, although they agree to ~60 bits.
    That needs (2m+1) * 5^n within about 2^-58 (relative) of a power of two; the (n, 2m+1) pairs are found by exact
    division, and each is combined with every limb count k for which the value is a finite float: D = 2^(64k)
    (resp. 2^(64k) - 1 when the halfway point lies above the power), exponent -n. Added after a seeded change that
    compared limbs from the top without comparing lengths first (round 7, C05-M) went unnoticed."""
    out = []
    for (p, e_lo, e_hi) in ((53, -1075, 970), (24, -150, 103)):
        for n in range(1, 1101):
            P = 5 ** n
            for t in range(P.bit_length() + p - 2, P.bit_length() + p + 2):
                M0 = (1 << t) // P
                for M in (M0, M0 + 1):
                    if M % 2 == 0 or not ((1 << p) < M < (1 << (p + 1))):
                        continue
                    gap = abs(M * P - (1 << t))
                    if gap << 58 >= (1 << t):
                        continue
                    above = M * P > (1 << t)  # halfway point above the power of two: the digits must stay below it
                    # case A: the halfway significand is shifted left (binary exponent e + n > 0): boundary at bit t + e + n = 64k
                    for k in range(2, 40):
                        e = 64 * k - t - n
                        if e + n > 0 and e_lo <= e <= e_hi:
                            D = (1 << (64 * k)) - (1 if above else 0)
                            out.append((-n, str(D)))
                    # case B: the digits are shifted left (e + n <= 0): boundary at bit t itself, which must be a limb edge
                    if t % 64 == 0:
                        for N in range(64, min(t, 2520) + 1, 61):
                            e = N - t - n
                            if e + n <= 0 and e_lo <= e <= e_hi:
                                D = (1 << N) - (1 if above else 0)
                                out.append((-n, str(D)))
    return out


def ripple_cases():
    """RIPPLE: integers D of 19*c digits (c = 3, 4, 5, 8 chunks of the big-integer digit accumulation) for which
    the addition of the LAST 19-digit chunk carries through every lower limb: with R the first 19*(c-1) digits,
    R * 10^19 = ...0111..1 | 2^64-ish and adding the chunk ripples the carry through 2, 3, 4, 7 whole limbs and on
    up to the halfway bit of D's binade. D is then an exact tie (delta = 0) or one unit above / below it, so a
    carry lost anywhere on the way lands on the other side of the halfway point. Solved exactly:
    R * 5^19 = 2^(N-19) - j (mod 2^(N-18)) with N the position of the halfway bit."""
    out = []
    inv_cache = {}
    for ndig in (57, 76, 95, 152):
        lo, hi = 10 ** (ndig - 1), 10 ** ndig
        for bl in range(lo.bit_length(), hi.bit_length() + 1):
            N = bl - 54  # halfway bit of the f64 binade of a bl-bit integer
            mod = 1 << (N - 18)
            inv = pow(5 ** 19, -1, mod)
            for j in (1, 2, 977, 1 << 20, 19073486328124):  # chunk = j * 2^19 + delta < 10^19
                r0 = ((1 << (N - 19)) - j) * inv % mod
                # R * 10^19 must have exactly bl bits and D exactly ndig digits
                rlo = max(-(-(1 << (bl - 1)) // 10 ** 19), -(-lo // 10 ** 19))
                rhi = min((1 << bl) // 10 ** 19, hi // 10 ** 19)
                t0 = -(-(rlo - r0) // mod)
                found = 0
                for t in range(t0, t0 + 3):
                    R = r0 + t * mod
                    if not (rlo <= R < rhi):
                        continue
                    for delta in (0, 1, -1):
                        c = j * (1 << 19) + delta
                        if not (0 <= c < 10 ** 19):
                            continue
                        D = R * 10 ** 19 + c
                        ds = str(D)
                        if len(ds) != ndig or D.bit_length() != bl:
                            continue
                        # by construction D = (odd) * 2^N + delta
                        assert (D - delta) % (1 << N) == 0 and ((D - delta) >> N) % 2 == 1
                        out.append((0, ds))
                        found += 1
                    if found >= 3:
                        break
    return out


def pow2_pos_cases():
    """POW2-POS: 2^N * 10^e for the decimal exponents e >= 1 at which 5^e lies within 2^-58 (relative) of a halfway
    point (2m+1) * 2^t: every power-of-two multiple of such a 5^e is then equally close to a halfway point, so
    D = 2^N (+ small) with exponent e reaches the big-integer path for *positive* exponents with a digit string
    that is a power of two. For N = 64L the digit accumulation crosses 2^(64L) in its last addition (the carry
    creates a new top limb - the positive-exponent counterpart of LIMB-EDGE)."""
    out = []
    for (p, emax) in ((53, 1023), (24, 127)):
        for e in range(1, 309 if p == 53 else 39):
            P = 5 ** e
            t = P.bit_length() - (p + 1)
            if t < 1:
                continue
            ok = False
            for M in ((P >> t), (P >> t) + 1):
                if M % 2 == 1 and abs(P - (M << t)) << 58 < P:
                    ok = True
            if not ok:
                continue
            for N in list(range(64, 1025, 64)) + [70, 77, 100, 127, 129, 191, 193]:
                if N + e + P.bit_length() > emax + 1 or N < 64:
                    continue
                for s_ in (0, 1, 31):
                    out.append((e, str((1 << N) + s_)))
    return sorted(set(out))


def main():
    ap = argparse.ArgumentParser()
    ap.add_argument('--table', default=None, help='unused: the table is recomputed from its definition')
    ap.add_argument('--out', default='-')
    a = ap.parse_args()
    lines = []
    for fmt, p, qlo, qhi, emin_ulp, emax_e in (('f64', 53, -342, 308, -1074, 971), ('f32', 24, -65, 38, -149, 104)):
        for q in range(qlo, qhi + 1):
            seen = set()
            for wbits in (64, 63, 60):
                for w, kind in midpoint_cases(q, p, wbits):
                    if w in seen or w >= M64 or w <= 0:
                        continue
                    seen.add(w)
                    lines.append(f"{fmt} {q} {w} {kind}")
            # inside (and two steps around) the tie window: exact ties and closest approaches for EVERY bit length of w -
            # the floats whose shortest rendering is itself a tie (2^k * 10^23, k = 50..52) have 16-digit significands
            # (added after round 7, C03-N: ties at q = 23 were only present with 60..64-bit significands)
            tie_lo, tie_hi = ((-4, 23) if p == 53 else (-17, 10))
            if tie_lo - 2 <= q <= tie_hi + 2:
                for wbits in range(2, 63):
                    if wbits == 60:
                        continue
                    for w, kind in midpoint_cases(q, p, wbits, want=2):
                        if w in seen or w >= M64 or w <= 0:
                            continue
                        seen.add(w)
                        lines.append(f"{fmt} {q} {w} {kind}")
            # short significands (what renderings with 15..17 / 7..9 digits look like)
            for nd in ((15, 16, 17) if p == 53 else (7, 8, 9)):
                for w, kind in decimal_near_cases(q, p, nd):
                    if w not in seen and 0 < w < M64:
                        seen.add(w)
                        lines.append(f"{fmt} {q} {w} {kind}")
            # subnormal range: midpoints have a fixed spacing there
            min_normal_exp = -1022 if p == 53 else -126
            for (ra, rb) in ((1 << 63, 1 << 64), (10 ** 18, 10 ** 19)) + tuple((10 ** (nd - 1), 10 ** nd) for nd in ((15, 16, 17) if p == 53 else (7, 8, 9))):
                for w, kind in subnormal_near_cases(q, emin_ulp, min_normal_exp, ra, rb):
                    if w not in seen and 0 < w < M64:
                        seen.add(w)
                        lines.append(f"{fmt} {q} {w} {kind}")
            for w in straddle_cases(q, p, emin_ulp, emax_e):
                if w not in seen:
                    seen.add(w)
                    lines.append(f"{fmt} {q} {w} straddle")
            for w, kind in lemire_cases(q, p + 2):
                if w not in seen:
                    seen.add(w)
                    lines.append(f"{fmt} {q} {w} {kind}")
    # f32 beyond its own exponent range but inside the 128-bit table: the low-word-all-ones significands (one per
    # table entry) - the only inputs that could reach the big-integer path there if the early 0 / infinity exit of
    # the moderate stage were keyed to the table bounds instead of the format's (round 8, C04-P)
    for q in list(range(-342, -65)) + list(range(39, 309)):
        for w, kind in lemire_cases(q, 26):
            if kind == 'lomax':
                lines.append(f"f32 {q} {w} lomax-out")
                if w > 1:
                    lines.append(f"f32 {q} {w - 1} lomax-out")
    # exponents just outside the tables: every stage must answer 0 / inf there
    for fmt, qs in (('f64', (-344, -343, 309, 310)), ('f32', (-67, -66, 39, 40))):
        for q in qs:
            for w in (1, 9, 10 ** 18, M64 - 1):
                lines.append(f"{fmt} {q} {w} edge")
    for e, ds in gap_cases():
        lines.append(f"str64 {e} {ds} gap")
    for e, ds in limb_edge_cases():
        lines.append(f"str64 {e} {ds} limbedge")
    for e, ds in ripple_cases():
        lines.append(f"str64 {e} {ds} ripple")
    for e, ds in pow2_pos_cases():
        lines.append(f"str64 {e} {ds} pow2pos")
    text = "\n".join(lines) + "\n"
    if a.out == '-':
        sys.stdout.write(text)
    else:
        with open(a.out, 'w') as f:
            f.write(text)


if __name__ == '__main__':
    main()
